"""Suite table: which TLC models exist, with which constants per tier, and which
properties run which suites and drivers (DESIGN.md section 6)."""

PARSE_INVS = ["EmitNonString", "C02C05_Generic", "C02C05_Typed", "JudgeOrderFree", "C01_RoundTrip", "C03_Render", "C04_Valid", "C10_Rebuild",
              "C07_Structure", "C08_TypedVsGeneric", "C08_UnknownType", "Emit"]


def parse_suite(name, nq, nt):
    return dict(module="MC_Parse", kind="bfs", invariants=PARSE_INVS, replay=["--serde"],
                quick=dict(N=nq, SUITE='"%s"' % name), thorough=dict(N=nt, SUITE='"%s"' % name),
                describe="every string prefix+w, w over the '%s' token alphabet, |w| <= N" % name)


SUITES = {
    "PARSE-SEP": parse_suite("sep", 5, 7),
    "PARSE-PATH": parse_suite("path", 3, 5),
    "PARSE-QUAL": parse_suite("qual", 3, 5),
    "PARSE-TYPED": parse_suite("typed", 3, 5),
    "PARSE-NS": parse_suite("nsseg", 3, 5),
    "PARSE-SUB": parse_suite("subseg", 3, 5),
    "PARSE-QUALS2": parse_suite("quals2", 4, 6),
    "PARSE-UPKEYS": parse_suite("upkeys", 2, 3),
    "PARSE-UPTYPE": parse_suite("uptype", 2, 3),
}

FORMAT_INVS = ["C09_BuildOk", "C03_Render", "C09_ParseBack", "C04_Valid", "Emit"]


def format_suite(mode_q, mode_t):
    return dict(module="MC_Format", kind="bfs", invariants=FORMAT_INVS, replay=["--serde"],
                quick=dict(MODE='"%s"' % mode_q), thorough=dict(MODE='"%s"' % mode_t),
                describe="one component position holds a character / pair of characters; build, Display, parse back")


BUILDER_INVS = ["C09_Faithful", "C09_Expected", "C09_BuildDefects", "C04_Valid", "C09_ParseBack", "C03_Render", "C10_Rebuild",
                "C09_Commute", "C09_Override", "C13_Finish", "EmitBuild"]


def builder_suite(shape):
    base = dict(SHAPE='"%s"' % shape, ORDER='"code"', HIST="FALSE", DEPTH=0)
    return dict(module="MC_Builder", kind="bfs", spec="Spec", invariants=BUILDER_INVS, constraints=["Small"], replay=["--serde"],
                quick=dict(base, SIZE='"q"', K=2, CK=1), thorough=dict(base, SIZE='"t"', K=2, CK=1),
                describe="all builder states with at most K optional fields set over a small universe x every setter "
                         "(one case per transition) and build() from every state (4-step pipeline)")


def builder_sim(shape):
    base = dict(SHAPE='"%s"' % shape, ORDER='"code"', HIST="TRUE", SIZE='"t"', K=99, CK=0)
    return dict(module="MC_Builder", kind="simulate", spec="Spec",
                invariants=["C09_Faithful", "C09_Expected", "C04_Valid", "C09_ParseBack", "C10_Rebuild", "EmitSeq"],
                quick=dict(base, DEPTH=8), thorough=dict(base, DEPTH=14),
                simulate=dict(quick="num=300", thorough="num=4000"),
                describe="random call sequences (TLC -simulate) of setters followed by build(), replayed on a live builder")


def builder_seq(shape):
    base = dict(SHAPE='"%s"' % shape, ORDER='"code"', HIST="TRUE", SIZE='"seq"', K=99, CK=0)
    return dict(module="MC_Builder", kind="bfs", spec="Spec", replay=["--serde"],
                invariants=["C09_Faithful", "C09_Expected", "C04_Valid", "C03_Render", "C10_Rebuild", "EmitSeq"],
                quick=dict(base, DEPTH=5), thorough=dict(base, DEPTH=6),
                describe="every call sequence of length <= DEPTH over seven qualifier ops (set k, K_, ka, z; unset K, k_, ka) followed by build(): "
                         "order of the printed qualifiers after interleaved inserts and removals")


SUITES.update({
    "BUILDER-SEQ": builder_seq("generic"),
    "FORMAT-1": format_suite("single", "single"),
    "FORMAT-2": format_suite("pairs", "allpairs"),
    "BUILDER-G": builder_suite("generic"),
    "BUILDER-T": builder_suite("typed"),
    "BUILDER-SIM-G": builder_sim("generic"),
    "BUILDER-SIM-T": builder_sim("typed"),
})

SUITES.update({
    "QUAL": dict(module="MC_Qual", kind="bfs", spec="Spec", invariants=["C11_Sorted", "C11_Canonical", "C11_StepRefines"],
                 properties=["Refines"], constraints=["Small"],
                 quick=dict(SIZE='"q"', HIST="FALSE", DEPTH=0, K=2), thorough=dict(SIZE='"t"', HIST="FALSE", DEPTH=0, K=3),
                 describe="sorted-Vec machine: every reachable content with at most K entries x every public operation; "
                          "refinement of the reference map (PROPERTY A!Spec) and StrictlySorted"),
    "QUAL-SIM": dict(module="MC_Qual", kind="simulate", spec="Spec", invariants=["C11_Sorted", "C11_Canonical", "EmitSeq"],
                     quick=dict(SIZE='"q"', HIST="TRUE", DEPTH=12, K=99), thorough=dict(SIZE='"t"', HIST="TRUE", DEPTH=30, K=99),
                     simulate=dict(quick="num=40", thorough="num=150"),
                     describe="random operation sequences (TLC -simulate) replayed on one live collection, result and content compared after every call"),
})

TYPES_INVS = ["C13_Finish", "EmitTypeStr", "C08_NearTypes", "C08_NameRule", "C08_Judged", "C10_Rebuild", "C01_RoundTrip", "C15_Lookup", "C15_Names", "C18_Split",
              "C18_Inverse", "EmitNames", "EmitLookup", "EmitCombined"]


def types_suite(mode, lq, lt, what):
    return dict(module="MC_Types", kind="bfs", invariants=TYPES_INVS, replay=["--serde"],
                quick=dict(MODE='"%s"' % mode, L=lq), thorough=dict(MODE='"%s"' % mode, L=lt), describe=what)


SUITES.update({
    "TYPES-NAMES": types_suite("names", 3, 5, "every name over {a A 1 - _ . AE Dz(titlecase)} up to length L x {pypi nuget cargo npm maven}: parsed raw, parsed fully escaped, built"),
    "TYPES-LOOKUP": types_suite("lookup", 0, 0, "all case variants of the seven names, one-edit neighbours over letters and look-alikes, padded / doubled names, 25 other PURL type names"),
    "TYPES-STR": types_suite("typestr", 3, 4, "every type string over {g B T 1 . + - ! , e-acute} up to length L, built with String, Cow::Borrowed, Cow::Owned, SmallString"),
    "TYPES-COMB": types_suite("combined", 4, 6, "every combined name over {a b / :} up to length L x seven types"),
    "TYPES-COMBESC": types_suite("combesc", 4, 5, "every combined name over {@ % 2 F f 3 A : / ! a} up to length L x seven types (escaped separators and the Go module-proxy case escape are ordinary characters)"),
})

SUITES.update({
    "CHECKSUM": dict(module="MC_Checksum", kind="bfs", spec="Spec", constraints=["Small"],
                     invariants=["C12_OrderIndependent", "C12_TextRoundTrip", "C12_KeysLower", "C12_BytesRoundTrip", "C06_EmptyText", "EmitSpellings"],
                     quick=dict(K=2), thorough=dict(K=3),
                     describe="typed checksum map over 7 algorithm names x 6 hex texts: every op from every map with at most K entries; "
                              "all enumerations of the map give one text; every order x case spelling of a well-formed map inside a PURL"),
})

SUITES.update({
    "SHAPES": dict(module="MC_Shapes", kind="bfs", spec="Spec", invariants=["C14_Counts", "C14_AtEnd", "C14_Analysis", "LibraryOrderAdmitted", "MachineWithinAllowed", "SingleDefectDetermined", "Emit"],
                   trace="Trace_Shapes", trace_invariants=["C14_Counts_T"],
                   quick=dict(E=2), thorough=dict(E=3),
                   describe="user-supplied shapes: conversion ok/fails x hook ok/fails x every set of at most E hook edits (of 12) x 8 parse inputs and 3 builder inputs; "
                            "the set of admitted outcomes and call counts replayed, and the calls recorded by the shape validated as a trace of the step machine (which fixes what C14 fixes, not the order in which the library examines the other components)"),
})

SUITES.update({
    "VALUES": dict(module="MC_Values", kind="bfs", invariants=["AllValid", "C19_Injective", "C19_OrderLaws", "C19_ParseInverts", "Emit"],
                   quick=dict(SIZE='"q"', PINNED="FALSE"), thorough=dict(SIZE='"t"', PINNED="FALSE"),
                   describe="all pairs of a universe of near-collision values (separator moved between adjacent fields, '&' '=' in values, literal escapes, case): "
                            "equal iff same canonical string; order laws incl. transitivity over all triples"),
})

SPELL_INVS = ["C02C05_Writer", "OraclesAgree", "JudgeOrderFree", "C01_RoundTrip", "Emit"]
SUITES.update({
    "SPELL": dict(module="MC_Spell", kind="bfs", invariants=SPELL_INVS, replay=["--serde"],
                  quick=dict(MODE='"spell"', K=2), thorough=dict(MODE='"spell"', K=3),
                  describe="13 component tuples (minimal, full, npm scope, golang path, checksum, non-ASCII, separators inside every component, "
                           "type/key with . + - digits, unsorted qualifiers, pypi, nuget, maven, space/quote/%) x every spelling with at most K deviations "
                           "from the canonical one (Writer oracle, independent of the strict reader)"),
    "FAULT": dict(module="MC_Spell", kind="bfs", invariants=SPELL_INVS, replay=["--serde"],
                  quick=dict(MODE='"fault"', K=0), thorough=dict(MODE='"fault"', K=0),
                  describe="the same tuples x every single fault of C05 (scheme, empty path, invalid/escaped type character at every position, "
                           "empty name, 11 invalid-UTF-8 escape spellings in each component, hidden slash, escaped dot segments, qualifier and checksum "
                           "malformations) with the class the injector demands, plus double faults (class free)"),
})

def system_suite(shape):
    return dict(module="MC_System", kind="simulate", spec="Spec", invariants=["SysValid", "SysSavedValid", "SysStringParses", "SysRebuild", "SysCompare", "Emit"],
                quick=dict(SHAPE='"%s"' % shape, DEPTH=16), thorough=dict(SHAPE='"%s"' % shape, DEPTH=40),
                simulate=dict(quick="num=300", thorough="num=3000"),
                describe="closed client sessions (PurlSystem): new / new from a combined name / setters / build / into_builder / format / serialize / respell / parse / deserialize / save / swap / compare / combined_name chained to depth DEPTH "
                         "by TLC -simulate and replayed on live builder, PURL and string objects with the projection compared after every step")


SUITES.update({"SYSTEM-G": system_suite("generic"), "SYSTEM-T": system_suite("typed")})

# drivers (impl -> spec): name -> dict(trace module, calls per tier, extra args, processes)
CORPUS = ["--corpus", "/repo/xtask/src/generate_tests/test-suite-data.json",
          "--corpus", "/repo/xtask/src/generate_tests/phylum-test-suite-data.json",
          "--corpus", "/repo/purl/src", "--corpus", "/repo/README.md"]
DRIVERS = {
    "garbage": dict(trace="Trace_Stateless", quick=1500, thorough=60000,
                    describe="random separator-heavy strings (raw and escaped separators, invalid UTF-8 escapes, non-ASCII), parsed by String and Purl"),
    "corpus": dict(trace="Trace_Stateless", quick=1200, thorough=40000, extra=CORPUS,
                   describe="the 58 conformance strings, every PURL literal of the repository's unit tests and doc examples, and 7 seeds: as they are, with every single look-alike substitution, and mutated (delete/insert token, swap, escape toggle, case toggle, look-alike substitution, appended component)"),
    "scalars": dict(trace="Trace_Stateless", quick=1500, thorough=1114112,
                    describe="Unicode scalar values (boundaries + seeded sample; thorough: every scalar value) in a nuget name (escaped), a pypi name (raw) and a generic name"),
    "vocab": dict(trace="Trace_Stateless", quick=1, thorough=2,
                  describe="the vocabulary of real package URLs: (16 types, quick 8) x 20 well-known qualifier keys x 21 values as they occur in the wild (jar, pom, git+https URLs, digests, ...) "
                           "and type x 13 names x 14 version shapes (v8.11.5, 2 / 10 / 1a, rc and build suffixes), each parsed and built; 16 ecosystem-style combined names x 7 types"),
    "escapes": dict(trace="Trace_Stateless", quick=1, thorough=2,
                    describe="every %XY over class representatives (thorough: all printable ASCII) in every decoded component; every ASCII byte and some non-ASCII digits as checksum digest "
                             "characters, raw and escaped, parsed and built"),
    "builder-ops": dict(trace="Trace_Stateless", quick=2500, thorough=80000,
                        describe="random builder call sequences with arbitrary Unicode arguments, build(), and the parse of the printed form"),
    "repo-tests": dict(trace="Trace_Stateless", kind="repo-tests", quick=1, thorough=1,
                       describe="the repository's own 129 unit tests, 52 conformance tests and 12 doc tests executed with the guarded hooks on "
                                "(--cfg purl_verif): every from_str, build() and Display call they make is recorded and validated"),
    "lengths": dict(trace="Trace_Stateless", quick=1, thorough=2, chunk=1200,
                    describe="length sweep: every component (type, namespace, name, version, key, value, subpath, checksum algorithm and hex) at every "
                             "length 0..48 and around 64 / 128 (thorough: also 256 / 1024) with a plain, upper-case, escape-needing, non-ASCII or escaped last character; "
                             "0..40 qualifiers and checksum entries in descending order; parsed (String, Purl) and built"),
    "big": dict(trace="Trace_Stateless", quick=1, thorough=1,
                describe="structured inputs of 64 KiB, 256 KiB and 1 MiB (long components, many segments / qualifiers / separators / escapes)"),
    "type-strings": dict(trace="Trace_Stateless", quick=3000, thorough=200000,
                         describe="case variants of the seven names, mutated, with inserted / substituted look-alikes, concatenated, and garbage -> PackageType::from_str"),
    "combined": dict(trace="Trace_Stateless", quick=2500, thorough=100000,
                     describe="combined names from pieces {a b / : @ . e-acute %2F space x/y g:a} x seven types: constructor, build, combined_name and back"),
    "pairs": dict(trace="Trace_Stateless", quick=2000, thorough=100000, extra=CORPUS,
                  describe="pairs of parsed values: a re-spelling of the same value, a one-mutation neighbour, or another pool value; ==, hash, cmp both ways, strings"),
    "qual-ops": dict(trace="Trace_Qual", quick=4000, thorough=150000,
                     describe="random sequences of 30 kinds of public calls on one live Qualifiers value, arbitrary keys and values"),
    "checksum-ops": dict(trace="Trace_Checksum", quick=800, thorough=15000, procs=dict(quick=4, thorough=32),
                         describe="random call sequences on live Checksum values in several processes (fresh RandomState each)"),
}

PARSE_ALL = ["PARSE-SEP", "PARSE-PATH", "PARSE-QUAL", "PARSE-TYPED", "PARSE-NS", "PARSE-SUB", "PARSE-QUALS2", "PARSE-UPKEYS", "PARSE-UPTYPE", "SPELL", "FAULT"]
BUILD_ALL = ["BUILDER-G", "BUILDER-T", "BUILDER-SIM-G", "BUILDER-SIM-T", "BUILDER-SEQ"]
PROPS = {
    "C01": dict(suites=PARSE_ALL + ["FORMAT-1", "TYPES-NAMES", "SYSTEM-G", "SYSTEM-T"], drivers=["garbage", "corpus", "lengths", "repo-tests", "vocab", "escapes", "big"]),
    "C02": dict(suites=PARSE_ALL, drivers=["corpus", "lengths", "repo-tests", "vocab", "escapes", "big"]),
    "C03": dict(suites=["FORMAT-1", "FORMAT-2", "PARSE-QUAL", "PARSE-QUALS2", "BUILDER-G", "BUILDER-SEQ"], drivers=["scalars", "builder-ops", "vocab"]),
    "C04": dict(suites=PARSE_ALL + BUILD_ALL + ["SHAPES", "SYSTEM-G", "SYSTEM-T", "QUAL"], drivers=["garbage", "builder-ops", "repo-tests"]),
    "C05": dict(suites=PARSE_ALL + ["CHECKSUM"], drivers=["corpus", "garbage", "lengths", "escapes", "scalars", "big"]),
    "C06": dict(suites=PARSE_ALL + ["QUAL", "QUAL-SIM", "CHECKSUM", "BUILDER-G", "BUILDER-T", "BUILDER-SIM-G", "FORMAT-1", "TYPES-LOOKUP", "TYPES-COMB", "TYPES-NAMES", "TYPES-STR", "SHAPES", "SYSTEM-T"], drivers=["garbage", "corpus", "scalars", "lengths", "qual-ops", "checksum-ops", "builder-ops", "type-strings", "combined", "big", "vocab", "escapes"]),
    "C07": dict(suites=["PARSE-NS", "PARSE-SUB", "PARSE-PATH", "PARSE-SEP", "SPELL", "FAULT"], drivers=["garbage", "corpus", "lengths", "escapes"]),
    "C08": dict(suites=["TYPES-NAMES", "TYPES-LOOKUP", "PARSE-TYPED", "BUILDER-T", "TYPES-COMB"], drivers=["scalars", "corpus", "vocab"]),
    "C09": dict(suites=BUILD_ALL + ["FORMAT-1", "FORMAT-2", "SYSTEM-G", "SYSTEM-T", "TYPES-NAMES", "TYPES-STR"], drivers=["builder-ops", "lengths", "repo-tests", "vocab", "big"]),
    "C10": dict(suites=PARSE_ALL + ["BUILDER-G", "BUILDER-T", "FORMAT-1", "TYPES-NAMES", "TYPES-STR", "CHECKSUM", "SYSTEM-G", "SYSTEM-T"], drivers=["scalars", "corpus", "lengths", "vocab"]),
    "C11": dict(suites=["QUAL", "QUAL-SIM"], drivers=["qual-ops"]),
    "C12": dict(suites=["CHECKSUM", "BUILDER-G", "QUAL", "PARSE-QUAL", "SPELL"], drivers=["checksum-ops", "corpus", "escapes"]),
    "C13": dict(suites=["TYPES-STR", "PARSE-SEP", "PARSE-PATH", "SPELL", "BUILDER-G", "BUILDER-SIM-G", "FORMAT-1"], drivers=["garbage", "corpus", "builder-ops", "vocab"]),
    "C14": dict(suites=["SHAPES"], drivers=[]),
    "C15": dict(suites=["TYPES-LOOKUP", "PARSE-TYPED", "FAULT", "PARSE-UPTYPE"], drivers=["type-strings", "scalars"]),
    "C16": dict(suites=["PARSE-SEP", "PARSE-PATH", "PARSE-QUAL", "PARSE-TYPED", "SPELL", "FAULT", "FORMAT-1", "FORMAT-2", "BUILDER-G", "BUILDER-T", "TYPES-LOOKUP", "SYSTEM-G", "SYSTEM-T"], drivers=["garbage", "corpus", "big"]),
    "C17": dict(suites=[], drivers=[], extra="c17",
                assumptions=["feature sets are compile-time: the harness is compiled once per set; TLC supplies the common case stream and validates the zipped transcripts, it does not enumerate configurations"]),
    "C18": dict(suites=["TYPES-COMB", "TYPES-COMBESC", "SYSTEM-T"], drivers=["combined", "corpus", "garbage", "vocab"]),
    "C19": dict(suites=["VALUES", "PARSE-QUAL", "PARSE-QUALS2", "PARSE-UPKEYS", "FORMAT-1", "QUAL", "BUILDER-G", "BUILDER-SEQ", "SYSTEM-G", "SYSTEM-T"], drivers=["pairs", "builder-ops"]),
}

ASSUMPTIONS_COMMON = [
    "bounded: TLC enumerates the stated token languages / universes only; exhaustive inside the bound, silent outside",
    "the non-ASCII lower-case table is an input of the specification (representatives in MC models, char::to_lowercase of the same std in recorded events)",
    "TLA+ transcription (ParseF, FormatSpec, BuildF) could share a misreading with the code; independent definitions (Strict/Judge, Render, Valid, QualMap) are compared with it by TLC",
    "harness, serde_json and the Rust std are trusted for projecting values to JSON",
]
