"""Suite table: which TLC models exist, with which constants per tier, and which
properties run which suites and drivers (DESIGN.md section 6)."""

PARSE_INVS = ["C02C05_Generic", "C02C05_Typed", "C01_RoundTrip", "C03_Render", "C04_Valid", "C10_Rebuild",
              "C07_Structure", "C08_TypedVsGeneric", "C08_UnknownType", "Emit"]


def parse_suite(name, nq, nt):
    return dict(module="MC_Parse", kind="bfs", invariants=PARSE_INVS, replay=["--serde"],
                quick=dict(N=nq, SUITE='"%s"' % name), thorough=dict(N=nt, SUITE='"%s"' % name),
                describe="every string prefix+w, w over the '%s' token alphabet, |w| <= N" % name)


SUITES = {
    "PARSE-SEP": parse_suite("sep", 5, 6),
    "PARSE-PATH": parse_suite("path", 3, 4),
    "PARSE-QUAL": parse_suite("qual", 3, 4),
    "PARSE-TYPED": parse_suite("typed", 3, 4),
}

# drivers: name -> dict(trace module, events per tier)
DRIVERS = {
}

PROPS = {
    "C01": dict(suites=["PARSE-SEP", "PARSE-QUAL", "PARSE-PATH", "PARSE-TYPED"], drivers=[]),
    "C02": dict(suites=["PARSE-SEP", "PARSE-PATH", "PARSE-QUAL", "PARSE-TYPED"], drivers=[]),
    "C05": dict(suites=["PARSE-SEP", "PARSE-PATH", "PARSE-QUAL", "PARSE-TYPED"], drivers=[]),
}

ASSUMPTIONS_COMMON = [
    "bounded: TLC enumerates the stated token languages / universes only; exhaustive inside the bound, silent outside",
    "the non-ASCII lower-case table is an input of the specification (representatives in MC models, char::to_lowercase of the same std in recorded events)",
    "TLA+ transcription (ParseF, FormatSpec, BuildF) could share a misreading with the code; independent definitions (Strict/Judge, Render, Valid, QualMap) are compared with it by TLC",
    "harness, serde_json and the Rust std are trusted for projecting values to JSON",
]
