"""Orchestration for the purl model-based checks (python3, stdlib only).

This module only moves files, starts TLC and the Rust harness, and counts.  Every
judgement is made either by TLC (design invariants, trace validation) or by the
harness comparing an observed outcome with the outcome TLC printed.
"""
import hashlib
import json
import os
import re
import shutil
import subprocess
import sys
import time

VERIF = os.path.dirname(os.path.dirname(os.path.abspath(__file__)))
SPEC = os.path.join(VERIF, "spec")
HARNESS = os.path.join(VERIF, "harness")
WORK = os.path.join(VERIF, "work")
REPLAYS = os.path.join(VERIF, "replays")
EVIDENCE = os.path.join(VERIF, "evidence")
TLA_JAR = "/opt/veriftools/tla/tla2tools.jar"
TLA_CP = TLA_JAR + ":/opt/veriftools/tla/CommunityModules-deps.jar"


class ToolError(Exception):
    """Something in the machinery (not in purl) failed: exit status 2, never a VIOLATION."""


def log(*a):
    print(*a, file=sys.stderr, flush=True)


# --------------------------------------------------------------------------- harness

FEATURE_SETS = {
    "full": ["pt", "ss", "sd"],        # purl default + serde (the main build)
    "default": ["pt", "ss"],           # purl default features
    "pt": ["pt"],                      # package-type only (no smartstring)
    "none": [],                        # no optional feature
}


def harness_dir():
    """The harness crate.  Development aid: with VERIF_REPO=<checkout> a scratch copy of the crate
    is used whose path dependency points at that checkout instead of /repo (so that seeded
    changes can be tried in a scratch worktree while /repo stays untouched)."""
    alt = os.environ.get("VERIF_REPO")
    if not alt:
        return HARNESS
    tag = hashlib.sha1(alt.encode()).hexdigest()[:10]
    d = os.path.join("/tmp", "verif-harness-" + tag)
    os.makedirs(os.path.join(d, ".cargo"), exist_ok=True)
    toml = open(os.path.join(HARNESS, "Cargo.toml")).read().replace('path = "/repo/purl"', 'path = "%s/purl"' % alt)
    open(os.path.join(d, "Cargo.toml"), "w").write(toml)
    shutil.copy2(os.path.join(HARNESS, "Cargo.lock"), os.path.join(d, "Cargo.lock"))
    shutil.copy2(os.path.join(HARNESS, ".cargo", "config.toml"), os.path.join(d, ".cargo", "config.toml"))
    if os.path.isdir(os.path.join(d, "src")):
        shutil.rmtree(os.path.join(d, "src"))
    shutil.copytree(os.path.join(HARNESS, "src"), os.path.join(d, "src"))
    return d


def build_harness(fset="full", dest_dir=None):
    """cargo build of the harness against /repo's working tree; returns the path of a private copy
    of the binary.  Build and copy happen under a file lock: checks may run concurrently and C17
    builds other feature sets into the same target directory."""
    import fcntl
    feats = FEATURE_SETS[fset]
    hdir = harness_dir()
    tdir = os.path.join(hdir, "target")
    os.makedirs(tdir, exist_ok=True)
    cmd = ["cargo", "build", "--release", "--offline", "--quiet", "--no-default-features"]
    if feats:
        cmd += ["--features", ",".join(feats)]
    env = dict(os.environ, CARGO_NET_OFFLINE="true", CARGO_TARGET_DIR=tdir)
    t0 = time.time()
    dest_dir = dest_dir or os.path.join(WORK, "bin-%d" % os.getpid())
    os.makedirs(dest_dir, exist_ok=True)
    dst = os.path.join(dest_dir, "purl-conform-" + fset)
    with open(os.path.join(tdir, ".verif-build.lock"), "w") as lock:
        fcntl.flock(lock, fcntl.LOCK_EX)
        p = subprocess.run(cmd, cwd=hdir, env=env, stdout=subprocess.PIPE, stderr=subprocess.STDOUT, text=True)
        if p.returncode != 0:
            raise ToolError("harness build failed (%s):\n%s" % (fset, p.stdout[-4000:]))
        shutil.copy2(os.path.join(tdir, "release", "purl-conform"), dst)
    log("[build] harness(%s) %.1fs" % (fset, time.time() - t0))
    return dst


# --------------------------------------------------------------------------- TLC

def write_cfg(path, constants=None, init="Init", next_="Next", spec=None, invariants=(), properties=(),
              constraints=(), view=None, postcondition=None, subst=None):
    lines = []
    if constants or subst:
        lines.append("CONSTANTS")
        for k, v in (constants or {}).items():
            lines.append("  %s = %s" % (k, v))
        for k, v in (subst or {}).items():
            lines.append("  %s <- %s" % (k, v))
    if spec:
        lines.append("SPECIFICATION %s" % spec)
    else:
        lines.append("INIT %s" % init)
        lines.append("NEXT %s" % next_)
    for i in invariants:
        lines.append("INVARIANT %s" % i)
    for p in properties:
        lines.append("PROPERTY %s" % p)
    for c in constraints:
        lines.append("CONSTRAINT %s" % c)
    if view:
        lines.append("VIEW %s" % view)
    if postcondition:
        lines.append("POSTCONDITION %s" % postcondition)
    lines.append("CHECK_DEADLOCK FALSE")
    with open(path, "w") as f:
        f.write("\n".join(lines) + "\n")


STAT_RE = re.compile(r"(\d+) states generated, (\d+) distinct states found")
SIM_RE = re.compile(r"The number of states generated: (\d+)")


def run_tlc(module_path, cfg_path, workdir, out_path, workers=8, simulate=None, seed=None, timeout=900,
            env_extra=None, coverage=False, heap="6g", expect_violation=False, dfs=False):
    """Run TLC; returns dict(generated, distinct, violated, error, out_path, wall)."""
    meta = os.path.join(workdir, "meta-" + os.path.basename(out_path))
    jopts = "-Xss512m"
    if dfs:
        jopts += " -Dtlc2.tool.queue.IStateQueue=StateDeque"
    cmd = ["java", "-XX:+UseParallelGC", "-Xmx" + heap, "-DTLA-Library=" + SPEC + ":" + os.path.join(SPEC, "mc") + ":" + os.path.join(SPEC, "trace"),
           "-cp", TLA_CP, "tlc2.TLC", "-workers", str(workers), "-metadir", meta, "-cleanup", "-noGenerateSpecTE",
           "-maxSetSize", "20000000", "-config", cfg_path]
    if coverage:
        cmd += ["-coverage", "1"]
    if simulate:
        cmd += ["-simulate", simulate]
        if seed is not None:
            cmd += ["-seed", str(seed)]
    cmd.append(module_path)
    env = dict(os.environ, JAVA_TOOL_OPTIONS=jopts)
    if env_extra:
        env.update(env_extra)
    t0 = time.time()
    with open(out_path, "w") as out:
        try:
            p = subprocess.run(cmd, cwd=os.path.dirname(module_path), env=env, stdout=out, stderr=subprocess.DEVNULL,
                               timeout=timeout)
            rc = p.returncode
        except subprocess.TimeoutExpired:
            raise ToolError("TLC timed out after %ss on %s" % (timeout, os.path.basename(cfg_path)))
    wall = time.time() - t0
    shutil.rmtree(meta, ignore_errors=True)
    generated = distinct = 0
    violated = None
    error = None
    tail = []
    with open(out_path, errors="replace") as f:
        for line in f:
            if line.startswith('<<"CASE"'):
                continue
            tail.append(line)
            if len(tail) > 400:
                tail.pop(0)
            m = STAT_RE.search(line)
            if m:
                generated, distinct = int(m.group(1)), int(m.group(2))
            m = SIM_RE.search(line)
            if m:
                generated = distinct = int(m.group(1))
            if line.startswith("Error: Invariant ") and "is violated" in line:
                violated = line.split()[2]
            elif "is violated" in line and line.startswith("Error:") and violated is None:
                violated = line.strip()
            elif line.startswith("Error:") and error is None and "is violated" not in line:
                error = line.strip()
    res = dict(generated=generated, distinct=distinct, violated=violated, error=error, out_path=out_path,
               wall=wall, rc=rc, cmd=" ".join(cmd[cmd.index("tlc2.TLC"):]))
    if violated and not expect_violation:
        raise ToolError("design-level violation in the specification itself (%s, %s):\n%s"
                        % (os.path.basename(cfg_path), violated, "".join(tail[-60:])))
    if error and not violated:
        raise ToolError("TLC error on %s: %s\n%s" % (os.path.basename(cfg_path), error, "".join(tail[-60:])))
    if rc != 0 and not violated:
        raise ToolError("TLC exit status %s on %s\n%s" % (rc, os.path.basename(cfg_path), "".join(tail[-40:])))
    if generated == 0 and not simulate and not violated:
        raise ToolError("TLC reported no states on %s\n%s" % (os.path.basename(cfg_path), "".join(tail[-40:])))
    return res


# --------------------------------------------------------------------------- replay

def run_replay(binary, cases_path, events_path=None, extra=(), timeout=1800):
    """Run the harness over a case file; returns (fails, summary)."""
    cmd = [binary, "replay", cases_path]
    if events_path:
        cmd += ["--events", events_path]
    cmd += list(extra)
    t0 = time.time()
    try:
        p = subprocess.run(cmd, stdout=subprocess.PIPE, stderr=subprocess.PIPE, text=True, timeout=timeout)
    except subprocess.TimeoutExpired:
        raise ToolError("harness replay timed out on %s" % cases_path)
    if p.returncode not in (0, 3):
        raise ToolError("harness replay failed (%s): %s" % (p.returncode, p.stderr[-2000:]))
    fails, summary = [], None
    for line in p.stdout.splitlines():
        if not line.startswith("{"):
            continue
        rec = json.loads(line)
        if rec.get("t") == "fail":
            fails.append(rec)
        elif rec.get("t") == "sum":
            summary = rec
    if summary is None:
        raise ToolError("harness produced no summary for %s: %s" % (cases_path, p.stderr[-2000:]))
    summary["wall"] = time.time() - t0
    return fails, summary


def run_drive(binary, driver, out_path, seed, n, extra=(), timeout=1800):
    cmd = [binary, "drive", driver, "--seed", str(seed), "--n", str(n), "--out", out_path] + list(extra)
    try:
        p = subprocess.run(cmd, stdout=subprocess.PIPE, stderr=subprocess.PIPE, text=True, timeout=timeout)
    except subprocess.TimeoutExpired:
        raise ToolError("driver %s timed out" % driver)
    if p.returncode not in (0, 3):
        raise ToolError("driver %s failed (%s): %s" % (driver, p.returncode, p.stderr[-2000:]))
    fails, summary = [], None
    for line in p.stdout.splitlines():
        if not line.startswith("{"):
            continue
        rec = json.loads(line)
        if rec.get("t") == "fail":
            fails.append(rec)
        elif rec.get("t") == "sum":
            summary = rec
    if summary is None:
        raise ToolError("driver %s produced no summary: %s" % (driver, p.stderr[-2000:]))
    return fails, summary


def run_repo_tests(events_path):
    """The repository's own unit tests, conformance tests and doc tests, run with the verification hooks on
    (--cfg purl_verif): every from_str / build / Display call they make is appended to events_path."""
    import fcntl
    repo = os.environ.get("VERIF_REPO", "/repo")
    tdir = os.path.join(WORK, "repo-tests-target" + ("" if repo == "/repo" else "-" + hashlib.sha1(repo.encode()).hexdigest()[:10]))
    os.makedirs(tdir, exist_ok=True)
    if os.path.exists(events_path):
        os.remove(events_path)
    env = dict(os.environ, CARGO_NET_OFFLINE="true", CARGO_TARGET_DIR=tdir, PURL_VERIF_TRACE=events_path,
               RUSTFLAGS="--cfg purl_verif -Awarnings", RUSTDOCFLAGS="--cfg purl_verif -Awarnings")
    cmd = ["cargo", "test", "--offline", "--quiet", "-p", "purl", "-p", "purl_test", "--no-fail-fast", "--", "--test-threads", "4"]
    t0 = time.time()
    with open(os.path.join(tdir, ".verif-build.lock"), "w") as lock:
        fcntl.flock(lock, fcntl.LOCK_EX)
        p = subprocess.run(cmd, cwd=repo, env=env, stdout=subprocess.PIPE, stderr=subprocess.STDOUT, text=True)
    passed = sum(int(m) for m in re.findall(r"test result: \w+\. (\d+) passed", p.stdout))
    failed = sum(int(m) for m in re.findall(r"(\d+) failed", p.stdout))
    if "error: could not compile" in p.stdout or "error[" in p.stdout:
        raise ToolError("repository tests with hooks did not compile:\n%s" % p.stdout[-3000:])
    if not os.path.exists(events_path):
        raise ToolError("the hooked test run recorded nothing:\n%s" % p.stdout[-2000:])
    log("[repo-tests] %d passed, %d failed, %d events, %.1fs" % (passed, failed, count_lines(events_path), time.time() - t0))
    summ = dict(asserts={}, counters=dict(repo_tests_passed=passed, repo_tests_failed=failed), samples=[])
    with open(events_path) as f:
        for i, line in enumerate(f):
            if i in (0, 40, 200):
                summ["samples"].append(json.loads(line))
    return [], summ


# --------------------------------------------------------------------------- trace validation

def count_lines(path):
    n = 0
    with open(path, "rb") as f:
        for _ in f:
            n += 1
    return n


CHUNK = 100000


def validate_trace(trace_module, events_path, workdir, tag, timeout=1800, constants=None, invariants=(), chunk=None):
    """Cut long traces into chunks of at most CHUNK events (stateful traces only at "reset" events) and
    validate the chunks with several TLC processes; indices are reported relative to the whole file."""
    n = count_lines(events_path)
    CHUNK_ = chunk or CHUNK
    if n <= CHUNK_:
        return validate_trace_one(trace_module, events_path, workdir, tag, timeout, constants, invariants)
    from concurrent.futures import ThreadPoolExecutor
    chunks, cur, cur_n, start = [], None, 0, 1
    idx = 0
    with open(events_path) as f:
        for i, line in enumerate(f, 1):
            boundary = cur is None or (cur_n >= CHUNK_ and (trace_module in ("Trace_Stateless", "Trace_Features") or '"ev":"reset"' in line.replace(" ", "")
                                                           or '"ev":"begin"' in line.replace(" ", "")))
            if boundary:
                if cur is not None:
                    cur.close()
                path = "%s.part%d" % (events_path, len(chunks))
                chunks.append((path, i))
                cur = open(path, "w")
                cur_n = 0
            cur.write(line)
            cur_n += 1
    if cur is not None:
        cur.close()

    def one(args):
        k, (path, first) = args
        r = validate_trace_one(trace_module, path, workdir, "%s-p%d" % (tag, k), timeout, constants, invariants)
        for rej in r["rejected"]:
            rej["index"] += first - 1
        os.remove(path)
        return r
    with ThreadPoolExecutor(max_workers=6) as ex:
        results = list(ex.map(one, enumerate(chunks)))
    res = dict(events=n, accepted=sum(r["accepted"] for r in results), rejected=[x for r in results for x in r["rejected"]],
               generated=sum(r["generated"] for r in results), distinct=sum(r["distinct"] for r in results),
               wall=sum(r["wall"] for r in results), cmd=results[0]["cmd"] + "  (x%d chunks of <= %d events)" % (len(chunks), CHUNK_))
    return res


def validate_trace_one(trace_module, events_path, workdir, tag, timeout=1800, constants=None, invariants=()):
    """impl -> spec: TLC consumes the recorded events with the trace specification.

    Returns dict(events, accepted, rejected=[{index, props, event}], ...)."""
    n = count_lines(events_path)
    if n == 0:
        return dict(events=0, accepted=0, rejected=[], generated=0, distinct=0, wall=0.0, cmd="")
    cfg = os.path.join(workdir, "trace-%s.cfg" % tag)
    write_cfg(cfg, constants=constants, spec="TraceSpec", postcondition="TraceAccepted", invariants=invariants)
    out = os.path.join(workdir, "trace-%s.out" % tag)
    module_path = os.path.join(SPEC, "trace", trace_module + ".tla")
    meta = os.path.join(workdir, "meta-trace-" + tag)
    cmd = ["java", "-XX:+UseParallelGC", "-Xmx4g", "-DTLA-Library=" + SPEC + ":" + os.path.join(SPEC, "mc"),
           "-cp", TLA_CP, "tlc2.TLC", "-workers", "1", "-metadir", meta, "-cleanup", "-noGenerateSpecTE",
           "-config", cfg, module_path]
    env = dict(os.environ, JAVA_TOOL_OPTIONS="-Xss1g -Dtlc2.tool.queue.IStateQueue=StateDeque", TRACE=events_path)
    t0 = time.time()
    with open(out, "w") as o:
        try:
            p = subprocess.run(cmd, cwd=os.path.dirname(module_path), env=env, stdout=o, stderr=subprocess.DEVNULL,
                               timeout=timeout)
        except subprocess.TimeoutExpired:
            raise ToolError("trace validation timed out (%s)" % tag)
    shutil.rmtree(meta, ignore_errors=True)
    text = open(out, errors="replace").read()
    generated = distinct = 0
    m = STAT_RE.search(text)
    if m:
        generated, distinct = int(m.group(1)), int(m.group(2))
    res = dict(events=n, generated=generated, distinct=distinct, wall=time.time() - t0,
               cmd="TRACE=%s tlc -workers 1 -config %s %s.tla" % (os.path.basename(events_path), os.path.basename(cfg), trace_module))
    if "is violated" in text:
        raise ToolError("trace validation (%s): an invariant of the trace specification is violated:\n%s" % (tag, text[-3000:]))
    rejected = []
    for m in re.finditer(r'<<"TRACE-REJECTED", (\d+), \{([^}]*)\}>>', text):
        rejected.append((int(m.group(1)), re.findall(r'"([^"]+)"', m.group(2))))
    m = re.search(r'<<"TRACE-STUCK", (\d+)>>', text)
    if m:
        rejected.append((int(m.group(1)), ["STUCK"]))
    if not rejected and not ("TRACE-CONSUMED" in text and p.returncode == 0):
        raise ToolError("trace validation (%s) ended without a verdict:\n%s" % (tag, text[-3000:]))
    wanted = {i for i, _ in rejected}
    events = {}
    if wanted:
        with open(events_path) as f:
            for i, line in enumerate(f, 1):
                if i in wanted:
                    events[i] = json.loads(line)
    res["rejected"] = [dict(index=i, props=props, event=events.get(i)) for i, props in rejected]
    res["accepted"] = n - len(rejected)
    return res


# --------------------------------------------------------------------------- findings, evidence, verdict

def load_known_findings():
    path = os.path.join(VERIF, "known_findings.json")
    if not os.path.exists(path):
        return []
    with open(path) as f:
        return json.load(f).get("findings", [])


def subset(small, big):
    if isinstance(small, dict):
        return isinstance(big, dict) and all(k in big and subset(v, big[k]) for k, v in small.items())
    return small == big


def match_known(fail, findings):
    for k in findings:
        if k.get("status") != "known":
            continue
        if k.get("property") != fail.get("prop"):
            continue
        if subset(k.get("match", {}), fail):
            return k
    return None


def text_of(cps):
    try:
        return "".join(chr(c) for c in cps)
    except Exception:
        return None


def write_replay(prop, n, payload):
    os.makedirs(REPLAYS, exist_ok=True)
    path = os.path.join(REPLAYS, "%s-%d.json" % (prop, n))
    with open(path, "w") as f:
        json.dump(payload, f, indent=1, sort_keys=True)
    return path


def write_evidence(prop, tier, seed, coverage, assumptions, wall, violations):
    os.makedirs(EVIDENCE, exist_ok=True)
    ev = dict(property_id=prop, tier=tier, seed=seed, level="model_checking", coverage=coverage,
              assumptions=assumptions, wall_s=round(wall, 2), violations=violations)
    with open(os.path.join(EVIDENCE, prop + ".json"), "w") as f:
        json.dump(ev, f, indent=1, sort_keys=True)
        f.write("\n")
