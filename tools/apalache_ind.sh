#!/bin/sh
# Supplement to the bounded TLC suites (DESIGN 13.11): discharges, with Apalache, the inductive invariant
# "the qualifier vector is strictly ascending" of spec/apalache/QualSortedInd.tla for arbitrary integer keys,
# and shows that the off-by-one variant of insert is rejected (vacuity control).  Depends on the specification
# only, not on /repo, and is therefore not part of any registered check's verdict.   ~5 min.
set -u
cd "$(dirname "$0")/../spec/apalache" || exit 2
out=$(mktemp -d /tmp/apa-out.XXXXXX); trap 'rm -rf "$out" QualSortedIndBad.tla' EXIT
run() { timeout 900 apalache-mc check --init="$2" --inv=IndInv --length="$3" --out-dir="$out" "$1" 2>&1 | grep -E "outcome is|EXITCODE" | tr '\n' ' '; echo; }
echo "base      : $(run QualSortedInd.tla Init 0)"
echo "step      : $(run QualSortedInd.tla IndInit 1)"
sed -e 's/MODULE QualSortedInd/MODULE QualSortedIndBad/' \
    -e 's/IF i <= p THEN a\[i\] ELSE IF i = p + 1 THEN k ELSE a\[i - 1\]/IF i < p THEN a[i] ELSE IF i = p THEN k ELSE a[i - 1]/' \
    QualSortedInd.tla > QualSortedIndBad.tla
echo "bad insert: $(run QualSortedIndBad.tla IndInit 1)   (must report an error)"
