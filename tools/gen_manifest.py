#!/usr/bin/env python3
"""Regenerate MANIFEST.json from tools/suites.py (claimed properties) and tools/manifest_text.py."""
import json, os, sys
sys.path.insert(0, os.path.dirname(os.path.abspath(__file__)))
import suites as S
import manifest_text as T

VERIF = os.path.dirname(os.path.dirname(os.path.abspath(__file__)))
props = [json.loads(l) for l in open(os.path.join(VERIF, "properties.jsonl"))]
checks, na = [], []
for p in props:
    pid = p["id"]
    if pid in S.PROPS and pid in T.CHECKS:
        t = T.CHECKS[pid]
        checks.append(dict(
            property_id=pid,
            quick_cmd="./check %s --tier quick" % pid,
            thorough_cmd="./check %s --tier thorough" % pid,
            evidence_file="evidence/%s.json" % pid,
            replay_cmd_template="./check %s --replay {path}" % pid,
            engine="tla-model-conformance",
            level_claimed=dict(category="model_checking", text=t["text"], design_ref=t["design_ref"]),
            level_note=t["note"],
            technique=t["technique"],
        ))
    else:
        na.append(dict(property_id=pid, reason=T.NOT_YET.get(pid, "check not built yet in this round; the TLA+ model applies (DESIGN.md section 7) and the property will be claimed once its suites exist")))
m = dict(
    version=1,
    setup_cmd="./tools/setup",
    hooks=dict(guard="purl_verif",
               enable="RUSTFLAGS='--cfg purl_verif' RUSTDOCFLAGS='--cfg purl_verif' PURL_VERIF_TRACE=<file> cargo test --offline -p purl -p purl_test "
                      "(done by the 'repo-tests' driver of ./check, tools/vlib.py run_repo_tests); every other suite and driver builds /repo/purl "
                      "WITHOUT the flag, as a path dependency of /verif/harness, because the public API already exposes the abstract state",
               baseline_off_cmd="cd /repo && cargo test --workspace --no-fail-fast --offline",
               source_commits=["225a18a", "77bc1ed"], add_only=True),
    engines=[dict(name="tla-model-conformance", path="spec/ tools/ harness/ check",
                  serves_properties=[c["property_id"] for c in checks],
                  kind_free_text="explicit TLA+ specification checked with TLC; bound to the Rust code by replaying TLC-generated cases/behaviours (spec -> impl) and by validating recorded ndjson traces with TLC trace specifications (impl -> spec)")],
    checks=checks,
    notes=T.NOTES,
    not_applicable=na,
)
json.dump(m, open(os.path.join(VERIF, "MANIFEST.json"), "w"), indent=1)
print("checks:", [c["property_id"] for c in checks], "not_applicable:", [n["property_id"] for n in na])
