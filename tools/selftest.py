#!/usr/bin/env python3
"""./tools/selftest.py - demonstrates that the specification is bound to the code and that the
checks are not vacuous (DESIGN.md 5.3).  Exit 0 iff every control behaves as expected.

 (a) corrupt one field of one recorded event per trace kind -> TLC must reject exactly that event
 (b) delete / duplicate a callback event of a shape session -> rejected
 (c) flip the expected outcome of one TLC-generated case -> the replay must report it
 (d) vacuity controls on the model: the pinned escape set violates C19 injectivity; build()
     without the retain step violates C04 Valid
"""
import json
import os
import shutil
import sys

sys.path.insert(0, os.path.dirname(os.path.abspath(__file__)))
import vlib
import suites as S
from vlib import ToolError, log

FAILED = []


def expect(cond, what):
    print(("ok   " if cond else "FAIL ") + what)
    if not cond:
        FAILED.append(what)


def main():
    work = os.path.join(vlib.WORK, "selftest-%d" % os.getpid())
    os.makedirs(work, exist_ok=True)
    try:
        binary = vlib.build_harness("full", work)
        # ---- (a) corrupted events
        def corrupt(driver, n, idx, mutate, trace):
            ev = os.path.join(work, driver + ".events")
            vlib.run_drive(binary, driver, ev, 7, n, extra=S.DRIVERS[driver].get("extra", ()))
            lines = open(ev).read().splitlines()
            # choose the first event at or after idx the mutation applies to
            for i in range(idx, len(lines)):
                e = json.loads(lines[i])
                m = mutate(e)
                if m is not None:
                    lines[i] = json.dumps(m)
                    open(ev, "w").write("\n".join(lines) + "\n")
                    tv = vlib.validate_trace(trace, ev, work, "st-" + driver)
                    rej = [r["index"] for r in tv["rejected"]]
                    # a stateful trace re-synchronises on the (corrupted) recorded state, so the event after it may be rejected too
                    ok = rej == [i + 1] or (trace != "Trace_Stateless" and rej == [i + 1, i + 2])
                    expect(ok, "(a) %s: corrupted event %d rejected, nothing else (rejected: %s of %d)" % (driver, i + 1, rej, tv["events"]))
                    return
            expect(False, "(a) %s: no event to corrupt" % driver)

        def flip_name(e):
            if e.get("ev") == "parse" and e["out"].get("ok"):
                e["out"]["v"]["name"] = e["out"]["v"]["name"] + [33]
                return e
        corrupt("corpus", 300, 120, flip_name, "Trace_Stateless")

        def accept_garbage(e):
            if e.get("ev") == "parse" and e["out"].get("ok") is False and e["out"]["err"] == "InvalidEscape":
                e["out"] = {"ok": False, "err": "InvalidQualifier"}
                return e
        corrupt("garbage", 600, 50, accept_garbage, "Trace_Stateless")

        def q_res(e):
            if e.get("ev") == "q" and e["op"][0] == "insert" and e["res"].get("ok"):
                e["post"] = list(reversed(e["post"])) if len(e["post"]) > 1 else None
                return e if e["post"] else None
        corrupt("qual-ops", 600, 100, q_res, "Trace_Qual")

        def ck_text(e):
            if e.get("ev") == "ck" and e["op"][0] == "to_text" and e["res"].get("ok") and len(e["res"]["s"]) > 3:
                e["res"]["s"][0] = e["res"]["s"][0] - 32 if 97 <= e["res"]["s"][0] <= 122 else 63
                return e
        corrupt("checksum-ops", 600, 50, ck_text, "Trace_Checksum")

        def bseq_out(e):
            if e.get("ev") == "bseq" and e["out"].get("ok"):
                e["out"] = {"ok": False, "err": "MissingName"}
                return e
        corrupt("builder-ops", 400, 100, bseq_out, "Trace_Stateless")

        # ---- (b) shape sessions: remove a finish event, duplicate a conv event
        su = S.SUITES["SHAPES"]
        cfg = os.path.join(work, "shapes.cfg")
        vlib.write_cfg(cfg, constants=dict(E=1), invariants=su["invariants"], spec="Spec")
        out = os.path.join(work, "shapes.tlc")
        vlib.run_tlc(os.path.join(vlib.SPEC, "mc", "MC_Shapes.tla"), cfg, work, out)
        ev = os.path.join(work, "shapes.events")
        vlib.run_replay(binary, out, ev)
        lines = open(ev).read().splitlines()
        fin = [i for i, l in enumerate(lines) if json.loads(l)["ev"] == "finish"][40]
        conv = [i for i, l in enumerate(lines) if json.loads(l)["ev"] == "conv" and i > fin + 5][10]
        mutated = lines[:fin] + lines[fin + 1:conv] + [lines[conv]] + lines[conv:]
        ev2 = os.path.join(work, "shapes2.events")
        open(ev2, "w").write("\n".join(mutated) + "\n")
        tv = vlib.validate_trace("Trace_Shapes", ev2, work, "st-shapes", invariants=["C14_Counts_T"])
        rej = [r["index"] for r in tv["rejected"]]
        expect(rej == [fin + 1, conv + 1], "(b) shape trace: missing hook call and repeated conversion rejected at %s (rejected: %s)" % ([fin + 1, conv + 1], rej))

        # ---- (c) flipped expectation in a case file
        su = S.SUITES["PARSE-QUAL"]
        cfg = os.path.join(work, "pq.cfg")
        vlib.write_cfg(cfg, constants=su["quick"], invariants=su["invariants"])
        out = os.path.join(work, "pq.tlc")
        vlib.run_tlc(os.path.join(vlib.SPEC, "mc", "MC_Parse.tla"), cfg, work, out)
        text = open(out).read()
        marker = '\\"gj\\":{\\"j\\":\\"acc\\",\\"v\\":{\\"type\\":[116]'
        pos = text.find(marker)
        expect(pos > 0, "(c) found a judged case to flip")
        text = text[:pos] + text[pos:].replace('\\"type\\":[116]', '\\"type\\":[117]', 1)
        open(out, "w").write(text)
        fails, summ = vlib.run_replay(binary, out, None)
        expect(len([f for f in fails if f["prop"] == "C02"]) >= 1, "(c) flipped expected value is reported by the replay (%d C02 failures)" % len([f for f in fails if f["prop"] == "C02"]))

        # ---- (d) vacuity controls on the model
        cfg = os.path.join(work, "vp.cfg")
        vlib.write_cfg(cfg, constants=dict(SIZE='"q"', PINNED="TRUE"), invariants=["C19_Injective"])
        r = vlib.run_tlc(os.path.join(vlib.SPEC, "mc", "MC_Values.tla"), cfg, work, os.path.join(work, "vp.tlc"), expect_violation=True)
        expect(r["violated"] == "C19_Injective", "(d) with the pinned escape set (no '&') TLC finds two values with one string (%s)" % r["violated"])
        cfg = os.path.join(work, "bn.cfg")
        base = dict(SHAPE='"generic"', ORDER='"noRetain"', HIST="FALSE", DEPTH=0, SIZE='"q"', K=2, CK=0)
        vlib.write_cfg(cfg, constants=base, invariants=["C04_Valid"], spec="Spec", constraints=["Small"])
        r = vlib.run_tlc(os.path.join(vlib.SPEC, "mc", "MC_Builder.tla"), cfg, work, os.path.join(work, "bn.tlc"), expect_violation=True)
        expect(r["violated"] == "C04_Valid", "(d) build() without the retain step violates Valid on the model (%s)" % r["violated"])
        cfg = os.path.join(work, "tp.cfg")
        vlib.write_cfg(cfg, constants=dict(MODE='"names"', L=2), invariants=["PinnedSame"])
        r = vlib.run_tlc(os.path.join(vlib.SPEC, "mc", "MC_Types.tla"), cfg, work, os.path.join(work, "tp.tlc"), expect_violation=True)
        expect(r["violated"] == "PinnedSame", "(d) the pinned scan-then-branch lower-casing differs from the nuget rule on the model (%s)" % r["violated"])
    finally:
        shutil.rmtree(work, ignore_errors=True)
    print("selftest: %s" % ("all controls behave as expected" if not FAILED else "%d control(s) FAILED" % len(FAILED)))
    return 0 if not FAILED else 1


if __name__ == "__main__":
    try:
        sys.exit(main())
    except ToolError as e:
        log("TOOL ERROR: %s" % e)
        sys.exit(2)
