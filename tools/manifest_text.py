"""Per-property wording for MANIFEST.json."""
NOTE_COMMON = ("Bounded model checking: TLC is exhaustive only inside the stated token languages / universes; "
               "trusted base: TLC, the CommunityModules Json/IOUtils modules, the harness projection code, serde_json, rustc/std "
               "(incl. char::to_lowercase as the source of the non-ASCII lower-case table).")
TECH = "TLA+ spec + TLC (bounded, exhaustive) + conformance: TLC-generated cases replayed on the Rust API, recorded events validated by TLC trace specs"
CHECKS = {
    "C01": dict(text="TLC checks on the transcribed parser/formatter that parse(format(parse(s))) is a fixpoint for every string of four bounded token languages; every such string (and every TLC-generated spelling) is executed through from_str / to_string / from_str for String, SmallString and Purl and the fixpoint is observed on the real values; the canonical string is compared with the one TLC computed.",
                design_ref="7 C01", note=NOTE_COMMON, technique=TECH),
    "C02": dict(text="An independent left-to-right strict reader (StrictRead) written in TLA+ gives the demanded components of every strict spelling in the bounded token languages; TLC proves the transcribed parser agrees with it on the model, and the harness requires the real parser to return exactly those components and that canonical string for three instantiations.",
                design_ref="7 C02", note=NOTE_COMMON, technique=TECH),
    "C05": dict(text="The strict reader lists the faults of C05 present in each string; TLC checks that the transcribed parser refuses every faulty string and returns the demanded class when the fault set is a singleton; the harness requires the same of the real parser (generic and typed), with free class under multiple faults.",
                design_ref="7 C05", note=NOTE_COMMON, technique=TECH),
}
NOT_YET = {}
NOTES = ("All checks share one engine: ./check <ID> --tier quick|thorough. Exit 2 means the machinery failed and is never a verdict. "
         "Failures tagged with another property than the one being checked are reported in the evidence (failures_tagged_with_other_properties) and decided by that property's own check.")
