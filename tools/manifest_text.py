"""Per-property wording for MANIFEST.json."""
NOTE_COMMON = ("Bounded model checking: TLC is exhaustive only inside the stated token languages / universes; "
               "trusted base: TLC, the CommunityModules Json/IOUtils modules, the harness projection code, serde_json, rustc/std "
               "(incl. char::to_lowercase as the source of the non-ASCII lower-case table).")
TECH = "TLA+ spec + TLC (bounded, exhaustive) + conformance: TLC-generated cases replayed on the Rust API, recorded events validated by TLC trace specs"
CHECKS = {
    "C01": dict(text="TLC checks on the transcribed parser/formatter that parse(format(parse(s))) is a fixpoint for every string of four bounded token languages; every such string (and every TLC-generated spelling) is executed through from_str / to_string / from_str for String, SmallString and Purl and the fixpoint is observed on the real values; the canonical string is compared with the one TLC computed.",
                design_ref="7 C01", note=NOTE_COMMON, technique=TECH),
    "C02": dict(text="An independent left-to-right strict reader (StrictRead) written in TLA+ gives the demanded components of every strict spelling in the bounded token languages; TLC proves the transcribed parser agrees with it on the model, and the harness requires the real parser to return exactly those components and that canonical string for three instantiations.",
                design_ref="7 C02", note=NOTE_COMMON, technique=TECH),
    "C05": dict(text="The strict reader lists the faults of C05 present in each string; TLC checks that the transcribed parser refuses every faulty string and returns the demanded class when the fault set is a singleton; the harness requires the same of the real parser (generic and typed), with free class under multiple faults.",
                design_ref="7 C05", note=NOTE_COMMON, technique=TECH),
}
CHECKS.update({
    "C03": dict(text="TLC compares the transcribed Display (escape sets built by the same .add chains) with a renderer written from the wording of C03 for every ASCII character and 13 non-ASCII representatives (quick) / all 128x128 ASCII pairs (thorough) in each of five component positions, bare and surrounded, plus printable-ASCII and separator-count invariants; every such value is built with the real builder for four type parameters and to_string() must equal TLC's string; values coming from the parser suites are checked the same way.",
                design_ref="7 C03", note=NOTE_COMMON, technique=TECH),
    "C04": dict(text="Valid(v) - C04 verbatim in TLA+ - is a TLC invariant of every state of the parser and builder models in which a value exists (build() is modelled as its four steps, and the mutated step orders are shown by TLC to violate it); the harness requires every value the library hands out to equal a value on which TLC evaluated Valid, or records it as an event on which a TLC trace specification evaluates Valid; qualifier retrievability and accessor views are compared on the live objects.",
                design_ref="7 C04", note=NOTE_COMMON, technique=TECH),
    "C09": dict(text="Setters are modelled as data (Apply) next to an independent history (Track/Expected: what was last set, when build must succeed, with what); TLC checks faithfulness, override and commutation for all pairs of ops and that the printed form parses back to the built fields modulo insignificant segments; every transition of the bounded builder state graph, every build from every state and simulated call sequences are replayed on real builders (String, Cow, SmallString, PackageType).",
                design_ref="7 C09", note=NOTE_COMMON, technique=TECH),
    "C10": dict(text="Rebuild(v) = Ok(v) is a TLC invariant of every accepted / built value of the parser, format and builder models; the harness performs clone().into_builder().build() on every value any case produces, for every type parameter, and requires the identical value and string.",
                design_ref="7 C10", note=NOTE_COMMON, technique=TECH),
    "C13": dict(text="The finish implementations of String/Cow::Owned/SmartString and of Cow::Borrowed are transcribed separately and TLC checks they coincide on the type universe; every parse case runs for String and SmallString and every build case / call sequence for String, Cow::Borrowed, Cow::Owned and SmallString, and the observed outcomes (acceptance, error, accessors, string) must be equal across them and to the specification's.",
                design_ref="7 C13", note=NOTE_COMMON, technique=TECH),
    "C11": dict(text="The collection is specified twice in TLA+: a reference map keyed by ASCII-lower-cased keys (QualMap) and the implementation-shaped sorted Vec with the binary search, comparator and entry API written out (QualVec); TLC checks the refinement (PROPERTY A!Spec under Abs), StrictlySorted and result equality for every reachable content x every operation over a universe with case variants, '_' next to letters, invalid keys, a Kelvin sign and empty values. Every edge of that state graph is executed on a real collection built in another insertion order and key case; simulated call sequences are replayed on one live object.",
                design_ref="7 C11", note=NOTE_COMMON, technique=TECH),
})
NOT_YET = {}
NOTES = ("All checks share one engine: ./check <ID> --tier quick|thorough. Exit 2 means the machinery failed and is never a verdict. "
         "Failures tagged with another property than the one being checked are reported in the evidence (failures_tagged_with_other_properties) and decided by that property's own check.")
