#!/bin/sh
# Development tooling for seeded changes (never touches /repo's working tree):
#   tools/mutant.sh confirm <dir-with-patch.diff-and-demo.rs>
#       confirm in a scratch worktree: clean tree passes the demo; patched tree passes the
#       existing suite and fails the demo
#   tools/mutant.sh run <dir|patch.diff> <ID> [<ID>...]
#       apply the patch in a scratch worktree and run the quick checks against it (VERIF_REPO)
#   tools/mutant.sh neutral <patch.diff>
#       the same for a change that is meant to keep every property: runs a set of checks that
#       together execute every suite and driver (C06 C09 C19 C17) and reports failures under ANY tag
# The registered procedure (git -C /repo apply; ./check; git -C /repo checkout -- .) gives the same
# verdicts; this script only avoids disturbing /repo while other work is going on.
set -u
cmd=$1; shift
case "$cmd" in
confirm)
  d=$(cd "$1" && pwd); wt=/tmp/wt/confirm-$$
  mkdir -p /tmp/wt
  git -C /repo worktree add -q --detach "$wt" HEAD || exit 2
  trap 'git -C /repo worktree remove --force "$wt" >/dev/null 2>&1' EXIT
  cd "$wt"
  # a demonstration may need a dev-dependency the crate does not declare (serde_json for C16, marked by demo_devdeps.txt)
  adddeps() { [ -f "$d/demo_devdeps.txt" ] && { printf '\n[dev-dependencies.serde_json]\nversion = "1"\n' >> purl/Cargo.toml; }; return 0; }
  mkdir -p purl/tests && cp "$d/demo.rs" purl/tests/demo.rs
  adddeps
  export CARGO_TARGET_DIR=/tmp/wt/confirm-target
  flags=""; [ -f "$d/demo_flags.txt" ] && flags=$(cat "$d/demo_flags.txt")     # e.g. --features serde
  if cargo test --offline -q -p purl $flags --test demo >/tmp/wt/confirm.log 2>&1; then echo "clean: demo passes"; else echo "clean: demo FAILS (bad mutant)"; tail -20 /tmp/wt/confirm.log; exit 1; fi
  git checkout -q -- purl/Cargo.toml
  git apply "$d/patch.diff" || { echo "patch does not apply"; exit 1; }
  rm purl/tests/demo.rs
  if cargo test --workspace --offline -q >/tmp/wt/confirm.log 2>&1; then echo "mutant: existing suite passes"; else echo "mutant: existing suite FAILS (bad mutant)"; grep -E "FAILED|failed|error" /tmp/wt/confirm.log | head; exit 1; fi
  cp "$d/demo.rs" purl/tests/demo.rs
  adddeps
  if cargo test --offline -q -p purl $flags --test demo >/tmp/wt/confirm.log 2>&1; then echo "mutant: demo PASSES (bad mutant)"; exit 1; else echo "mutant: demo fails (good)"; fi
  exit 0 ;;
run)
  p=$1; shift
  [ -d "$p" ] && p="$p/patch.diff"
  p=$(cd "$(dirname "$p")" && pwd)/$(basename "$p")
  wt=/tmp/wt/run-$$
  mkdir -p /tmp/wt
  git -C /repo worktree add -q --detach "$wt" HEAD || exit 2
  tag=$(python3 -c "import hashlib,sys;print(hashlib.sha1(sys.argv[1].encode()).hexdigest()[:10])" "$wt")
  trap 'git -C /repo worktree remove --force "$wt" >/dev/null 2>&1; rm -rf "/tmp/verif-harness-$tag" "/verif/work/repo-tests-target-$tag"' EXIT
  git -C "$wt" apply "$p" || { echo "patch does not apply"; exit 2; }
  cd /verif
  for id in "$@"; do
    out=$(VERIF_REPO="$wt" ./check "$id" --tier quick ${CHECK_ARGS:-} 2>&1); rc=$?
    echo "$id rc=$rc violations=$(echo "$out" | grep -c '^VIOLATION') $(echo "$out" | grep -A4 'first violation' | tr '\n' ' ' | cut -c1-400)"
  done ;;
neutral)
  p=$1; shift
  p=$(cd "$(dirname "$p")" && pwd)/$(basename "$p")
  wt=/tmp/wt/run-$$
  mkdir -p /tmp/wt
  git -C /repo worktree add -q --detach "$wt" HEAD || exit 2
  tag=$(python3 -c "import hashlib,sys;print(hashlib.sha1(sys.argv[1].encode()).hexdigest()[:10])" "$wt")
  trap 'git -C /repo worktree remove --force "$wt" >/dev/null 2>&1; rm -rf "/tmp/verif-harness-$tag" "/verif/work/repo-tests-target-$tag"' EXIT
  git -C "$wt" apply "$p" || { echo "patch does not apply"; exit 2; }
  cd /verif
  ids="$@"; [ -z "$ids" ] && ids="C06 C09 C19 C17"
  for id in $ids; do
    out=$(VERIF_REPO="$wt" ./check "$id" --tier quick 2>&1); rc=$?
    echo "$id rc=$rc violations=$(echo "$out" | grep -c '^VIOLATION') $(echo "$out" | grep -E 'failures tagged with other|TOOL' | tr '\n' ' ' | cut -c1-300) $(echo "$out" | grep -A4 'first violation' | tr '\n' ' ' | cut -c1-400)"
  done ;;
esac
