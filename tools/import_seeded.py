#!/usr/bin/env python3
"""tools/import_seeded.py <src-dir> <name> <property> [origin]  - development aid: copy a seeded change
(patch.diff, demo.rs, README.md[, demo_flags.txt]) into seeded/<name>, confirm it in a scratch worktree
(tools/mutant.sh confirm) and write meta.json.  Nothing is kept if the confirmation fails."""
import json, os, shutil, subprocess, sys
src, name, prop = sys.argv[1:4]
origin = sys.argv[4] if len(sys.argv) > 4 else "independent sub-agent given the property texts and a scratch worktree of /repo (HEAD 77bc1ed), free to break any property"
V = os.path.dirname(os.path.dirname(os.path.abspath(__file__)))
dst = os.path.join(V, "seeded", name)
os.makedirs(dst, exist_ok=True)
for f in ("patch.diff", "demo.rs", "README.md", "demo_flags.txt", "demo_devdeps.txt"):
    if os.path.exists(os.path.join(src, f)):
        shutil.copy(os.path.join(src, f), os.path.join(dst, f))
r = subprocess.run([os.path.join(V, "tools", "mutant.sh"), "confirm", dst], capture_output=True, text=True)
print(r.stdout.strip()); print(r.stderr.strip()[-500:])
if r.returncode != 0:
    shutil.rmtree(dst)
    print("NOT CONFIRMED: %s removed" % dst)
    sys.exit(1)
needs = open(os.path.join(dst, "README.md")).read().splitlines()[:14] if os.path.exists(os.path.join(dst, "README.md")) else []
meta = dict(property=prop, origin=origin, needs=needs,
            confirmed=dict(cmd="tools/mutant.sh confirm seeded/%s" % name,
                           result="clean tree: demo passes; patched tree: cargo test --workspace --offline passes (181 tests), demo fails"),
            detected_by=None)
json.dump(meta, open(os.path.join(dst, "meta.json"), "w"), indent=1)
print("confirmed and stored:", dst)
