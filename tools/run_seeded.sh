#!/bin/sh
# tools/run_seeded.sh [<seeded-name> ...]  - run each seeded change against the quick check of its own
# property (in a scratch worktree, see tools/mutant.sh) and append one line per change to the table.
cd /verif
names="$@"; [ -z "$names" ] && names=$(ls seeded)
for m in $names; do
  p=${m%%-*}
  line=$(./tools/mutant.sh run seeded/$m $p 2>&1 | tail -1 | cut -c1-300)
  echo "$m | $line"
done
