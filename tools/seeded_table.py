#!/usr/bin/env python3
"""tools/seeded_table.py - rewrite the table of DESIGN.md 13.7 from seeded/*/meta.json (development aid)."""
import json, os, re
V = os.path.dirname(os.path.dirname(os.path.abspath(__file__)))
rows = []
def key(n):
    m = re.match(r"C(\d+)-m(\d+)", n)
    return (int(m.group(1)), int(m.group(2)))
for name in sorted((n for n in os.listdir(os.path.join(V, "seeded")) if re.match(r"C\d+-m\d+$", n)), key=key):
    j = json.load(open(os.path.join(V, "seeded", name, "meta.json")))
    d = j.get("detected_by") or {}
    chk = (d.get("check") or "").split()
    rows.append("| %s | %s | %s | %s |" % (name, chk[1] if len(chk) > 1 else j["property"], "yes" if d else "NO",
                                          (d.get("first_failing_assertion") or "")[:72]))
p = os.path.join(V, "DESIGN.md")
s = open(p).read()
head = "| change | check | detected | first failing assertion |\n|---|---|---|---|\n"
a = s.index(head) + len(head)
b = s.index("\n\n", a)
s = s[:a] + "\n".join(rows) + s[b:]
open(p, "w").write(s)
print(len(rows), "rows;", sum(1 for r in rows if "| NO |" in r), "undetected")
