//! Parameterised user-supplied shapes for C14 (filled in below).
