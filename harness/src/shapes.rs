//! A parameterised family of user-supplied `PurlShape + FromStr` implementations (C14).
//!
//! The parameters (does the conversion succeed, does the hook succeed, which edits does the
//! hook perform) come from the case; every call the library makes into the shape is appended
//! to a thread-local log, which becomes the recorded trace checked by Trace_Shapes.tla.

use std::borrow::Cow;
use std::cell::RefCell;
use std::str::FromStr;

use purl::{ParseError, PurlParts, PurlShape};
use serde_json::{json, Value};

use crate::proj::{cps, from_cps, quals_json, ErrName};

#[derive(Clone, Debug, PartialEq, Eq, Hash, PartialOrd, Ord)]
pub struct TestShape {
    /// The type string exactly as it was handed to the conversion / the builder.
    pub ty: String,
}

#[derive(Debug)]
pub enum TestErr {
    Parse(ParseError),
    Conv,
    Hook,
}

impl From<ParseError> for TestErr {
    fn from(e: ParseError) -> Self {
        TestErr::Parse(e)
    }
}

impl ErrName for TestErr {
    fn err_name(&self) -> String {
        match self {
            TestErr::Parse(e) => format!("Parse:{}", e.err_name()),
            TestErr::Conv => "ConvError".into(),
            TestErr::Hook => "HookError".into(),
        }
    }
}

#[derive(Clone, Default)]
pub struct Params {
    pub conv: bool,
    pub fin: bool,
    pub edits: Vec<Value>,
}

thread_local! {
    static PARAMS: RefCell<Params> = RefCell::new(Params::default());
    static LOG: RefCell<Vec<Value>> = RefCell::new(Vec::new());
}

pub fn set_params(p: Params) {
    PARAMS.with(|c| *c.borrow_mut() = p);
}

pub fn log(ev: Value) {
    LOG.with(|l| l.borrow_mut().push(ev));
}

pub fn take_log() -> Vec<Value> {
    LOG.with(|l| std::mem::take(&mut *l.borrow_mut()))
}

pub fn parts_json(p: &PurlParts) -> Value {
    json!({"ns": cps(&p.namespace), "name": cps(&p.name), "ver": cps(&p.version),
           "quals": quals_json(&p.qualifiers), "sub": cps(&p.subpath)})
}

impl FromStr for TestShape {
    type Err = TestErr;

    fn from_str(s: &str) -> Result<Self, Self::Err> {
        log(json!({"ev": "conv", "arg": cps(s)}));
        reenter();
        if PARAMS.with(|p| p.borrow().conv) {
            Ok(TestShape { ty: s.to_owned() })
        } else {
            Err(TestErr::Conv)
        }
    }
}

/// User code may itself use the library while the library is calling it (a hook that validates a nested PURL
/// kept in a qualifier, a conversion that consults a parsed table): every callback parses, builds and prints
/// a PURL of a built-in type parameter.  A library that holds a lock or a borrowed scratch buffer across the
/// callback fails here, inside the call whose outcome the specification fixes.
fn reenter() {
    let p = purl::GenericPurl::<String>::from_str("pkg:Npm/%40a//b/c@1?k=v&checksum=B:00,a:FF#d/./e")
        .expect("nested parse inside a callback");
    let q = p.clone().into_builder().with_qualifier("z", "1").expect("valid key").build().expect("nested build inside a callback");
    assert!(q.to_string().len() > p.to_string().len());
}

fn apply_edit(parts: &mut PurlParts, e: &Value) {
    match e[0].as_str().unwrap_or("") {
        "clearName" => parts.name = Default::default(),
        "setName" => parts.name = from_cps(&e[1]).into(),
        "setNs" => parts.namespace = from_cps(&e[1]).into(),
        "setVer" => parts.version = from_cps(&e[1]).into(),
        "setSub" => parts.subpath = from_cps(&e[1]).into(),
        "insQ" => {
            let _ = parts.qualifiers.insert(from_cps(&e[1]), from_cps(&e[2]));
        },
        "remQ" => {
            parts.qualifiers.remove(from_cps(&e[1]));
        },
        other => panic!("unknown edit {other}"),
    }
}

impl PurlShape for TestShape {
    type Error = TestErr;

    fn package_type(&self) -> Cow<str> {
        Cow::Owned(self.ty.to_ascii_lowercase())
    }

    fn finish(&mut self, parts: &mut PurlParts) -> Result<(), Self::Error> {
        let before = parts_json(parts);
        reenter();
        let params = PARAMS.with(|p| p.borrow().clone());
        if !params.fin {
            log(json!({"ev": "finish", "before": before, "after": before, "ok": false}));
            return Err(TestErr::Hook);
        }
        for e in &params.edits {
            apply_edit(parts, e);
        }
        log(json!({"ev": "finish", "before": before, "after": parts_json(parts), "ok": true}));
        Ok(())
    }
}
