//! Projection of library values to the JSON vocabulary of the specification.
//!
//! A string is an array of Unicode scalar values; a PURL value is
//! `{type, ns, name, ver, quals: [[k, v]..], sub}`; an outcome is
//! `{ok: true, v, str}` / `{ok: false, err}` / `{panic: true}`.

use std::borrow::Cow;
use std::panic::{catch_unwind, AssertUnwindSafe};

use purl::{GenericPurl, ParseError, PurlField, PurlShape, Qualifiers};
use serde_json::{json, Value};

pub fn cps(s: &str) -> Value {
    Value::Array(s.chars().map(|c| json!(c as u32)).collect())
}

pub fn from_cps(v: &Value) -> String {
    match v.as_array() {
        Some(a) => a
            .iter()
            .map(|x| char::from_u32(x.as_u64().expect("code point") as u32).expect("scalar value"))
            .collect(),
        None => String::new(),
    }
}

pub fn field_name(f: &PurlField) -> &'static str {
    match f {
        PurlField::PackageType => "Type",
        PurlField::Namespace => "Namespace",
        PurlField::Name => "Name",
        PurlField::Version => "Version",
        PurlField::Subpath => "Subpath",
    }
}

/// Error class names as used by the specification.
pub trait ErrName {
    fn err_name(&self) -> String;
}

impl ErrName for ParseError {
    fn err_name(&self) -> String {
        match self {
            ParseError::UnsupportedUrlScheme => "UnsupportedUrlScheme".into(),
            ParseError::MissingRequiredField(f) => format!("Missing{}", field_name(f)),
            ParseError::InvalidPackageType => "InvalidPackageType".into(),
            ParseError::InvalidQualifier => "InvalidQualifier".into(),
            ParseError::InvalidEscape => "InvalidEscape".into(),
        }
    }
}

#[cfg(feature = "pt")]
impl ErrName for purl::PackageError {
    fn err_name(&self) -> String {
        match self {
            purl::PackageError::MissingRequiredField(f) => format!("Missing{}", field_name(f)),
            purl::PackageError::Parse(e) => format!("Parse:{}", e.err_name()),
            purl::PackageError::UnsupportedType => "UnsupportedType".into(),
        }
    }
}

/// The type string of a shape, as the value-level `type` field.
pub fn quals_json(q: &Qualifiers) -> Value {
    Value::Array(q.iter().map(|(k, v)| json!([cps(k.as_str()), cps(v)])).collect())
}

pub fn value_json<T: PurlShape>(p: &GenericPurl<T>) -> Value {
    let ty: Cow<str> = p.package_type().package_type();
    json!({
        "type": cps(&ty),
        "ns": cps(p.namespace().unwrap_or("")),
        "name": cps(p.name()),
        "ver": cps(p.version().unwrap_or("")),
        "quals": quals_json(p.qualifiers()),
        "sub": cps(p.subpath().unwrap_or("")),
    })
}

/// to_string() under catch_unwind: `Some(string)` or `None` on panic.
pub fn display<T: PurlShape>(p: &GenericPurl<T>) -> Option<String> {
    catch_unwind(AssertUnwindSafe(|| p.to_string())).ok()
}

/// Outcome of an operation that yields a PURL.
pub fn outcome<T, E>(r: std::thread::Result<Result<GenericPurl<T>, E>>) -> Value
where
    T: PurlShape,
    E: ErrName,
{
    match r {
        Err(_) => json!({"panic": true}),
        Ok(Err(e)) => json!({"ok": false, "err": e.err_name()}),
        Ok(Ok(p)) => match display(&p) {
            Some(s) => json!({"ok": true, "v": value_json(&p), "str": cps(&s)}),
            None => json!({"ok": true, "v": value_json(&p), "str": {"panic": true}}),
        },
    }
}

/// Events judged by TLC must not mix a sequence and a record under one key (TLC cannot compare
/// them): a panicking Display is recorded as `str: []` plus `display_panic: true`.
pub fn for_tlc(o: &Value) -> Value {
    let mut o = o.clone();
    if o.get("str").map(|s| s.is_object()).unwrap_or(false) {
        o["str"] = json!([]);
        o["display_panic"] = json!(true);
    }
    o
}

/// Everything observable about a qualifier list besides iteration: reverse iteration,
/// length, and a lookup of every key in lower and upper case.
pub fn quals_extras(q: &Qualifiers) -> Value {
    let fwd: Vec<(String, String)> = q.iter().map(|(k, v)| (k.as_str().to_owned(), v.to_owned())).collect();
    let mut rev: Vec<(String, String)> = q.iter().rev().map(|(k, v)| (k.as_str().to_owned(), v.to_owned())).collect();
    rev.reverse();
    let get_lo: Vec<Option<String>> = fwd.iter().map(|(k, _)| q.get(k.as_str()).map(|v| v.to_owned())).collect();
    let get_up: Vec<Option<String>> =
        fwd.iter().map(|(k, _)| q.get(k.to_ascii_uppercase()).map(|v| v.to_owned())).collect();
    let want: Vec<Option<String>> = fwd.iter().map(|(_, v)| Some(v.clone())).collect();
    // iterator protocol: alternate next / next_back, exact size hints, each entry exactly once
    let mut it = q.iter();
    let (mut front, mut back): (Vec<(String, String)>, Vec<(String, String)>) = (Vec::new(), Vec::new());
    let mut hints_ok = it.len() == fwd.len() && it.size_hint() == (fwd.len(), Some(fwd.len()));
    let mut turn = true;
    loop {
        let item = if turn { it.next() } else { it.next_back() };
        let Some((k, v)) = item else { break };
        if turn {
            front.push((k.as_str().to_owned(), v.to_owned()));
        } else {
            back.push((k.as_str().to_owned(), v.to_owned()));
        }
        turn = !turn;
        let left = fwd.len() - front.len() - back.len();
        hints_ok &= it.size_hint() == (left, Some(left));
    }
    back.reverse();
    front.extend(back);
    // key views agree: as_str, Deref, AsRef, Display-free conversions
    let keys_ok = q.iter().all(|(k, _)| {
        let a: &str = k.as_str();
        let b: &str = k;
        let c: &str = k.as_ref();
        a == b && b == c && *k == *a && String::from(a) == k.to_string()
    });
    let into_ref: Vec<(String, String)> = (&*q).into_iter().map(|(k, v)| (k.as_str().to_owned(), v.to_owned())).collect();
    // positional iterator methods against the forward list: nth, nth_back, last, count, skip, step_by, take + rev
    let own = |x: Option<(&purl::qualifiers::QualifierKey, &str)>| x.map(|(k, v)| (k.as_str().to_owned(), v.to_owned()));
    let n = fwd.len();
    let mut positional = q.iter().count() == n && own(q.iter().last()) == fwd.last().cloned();
    for i in 0..=n + 1 {
        positional &= own(q.iter().nth(i)) == fwd.get(i).cloned();
        positional &= own(q.iter().nth_back(i)) == (if i < n { fwd.get(n - 1 - i).cloned() } else { None });
        positional &= own(q.iter().rev().nth(i)) == (if i < n { fwd.get(n - 1 - i).cloned() } else { None });
        let skipped: Vec<_> = q.iter().skip(i).map(|x| own(Some(x)).unwrap()).collect();
        positional &= skipped == fwd.iter().skip(i).cloned().collect::<Vec<_>>();
        let rskipped: Vec<_> = q.iter().rev().skip(i).map(|x| own(Some(x)).unwrap()).collect();
        positional &= rskipped == fwd.iter().rev().skip(i).cloned().collect::<Vec<_>>();
        let taken: Vec<_> = q.iter().take(i).rev().map(|x| own(Some(x)).unwrap()).collect();
        positional &= taken == fwd.iter().take(i).rev().cloned().collect::<Vec<_>>();
        let stepped: Vec<_> = q.iter().step_by(i + 1).map(|x| own(Some(x)).unwrap()).collect();
        positional &= stepped == fwd.iter().step_by(i + 1).cloned().collect::<Vec<_>>();
        let mut it = q.iter();
        let _ = it.nth(i);
        let rest: Vec<_> = it.map(|x| own(Some(x)).unwrap()).collect();
        positional &= rest == fwd.iter().skip(i + 1).cloned().collect::<Vec<_>>();
        let mut it = q.iter();
        let _ = it.nth_back(i);
        let rest: Vec<_> = it.map(|x| own(Some(x)).unwrap()).collect();
        positional &= rest == fwd.iter().take(n.saturating_sub(i + 1)).cloned().collect::<Vec<_>>();
    }
    json!({
        "alternating_same": front == fwd,
        "size_hints_exact": hints_ok,
        "key_views_same": keys_ok,
        "into_iter_same": into_ref == fwd,
        "positional_same": positional,
        "rev_same": fwd == rev,
        "len_same": q.len() == fwd.len() && q.is_empty() == fwd.is_empty(),
        "get_lower_same": get_lo == want,
        "get_upper_same": get_up == want,
    })
}

/// Simple deterministic PRNG (xorshift64*), so that no crate is needed.
pub struct Rng(pub u64);

impl Rng {
    pub fn new(seed: u64) -> Self {
        Rng(seed.wrapping_mul(0x9E3779B97F4A7C15) ^ 0xD1B54A32D192ED03)
    }

    pub fn next(&mut self) -> u64 {
        let mut x = self.0;
        x ^= x >> 12;
        x ^= x << 25;
        x ^= x >> 27;
        self.0 = x;
        x.wrapping_mul(0x2545F4914F6CDD1D)
    }

    pub fn below(&mut self, n: usize) -> usize {
        if n == 0 {
            0
        } else {
            (self.next() % n as u64) as usize
        }
    }

    pub fn chance(&mut self, num: usize, den: usize) -> bool {
        self.below(den) < num
    }

    pub fn pick<'a, T>(&mut self, xs: &'a [T]) -> &'a T {
        &xs[self.below(xs.len())]
    }
}
