//! spec -> impl: execute cases printed by TLC against the real library and compare
//! with the outcome the specification allows.

use std::collections::BTreeMap;
use std::hash::{Hash, Hasher};
use std::io::Write;
use std::panic::{catch_unwind, AssertUnwindSafe};
use std::str::FromStr;

use purl::{GenericPurl, GenericPurlBuilder, PurlShape};
use serde_json::{json, Value};

use crate::proj::*;

pub struct Ctx {
    pub line: usize,
    pub case: Value,
    pub asserts: BTreeMap<String, u64>,
    pub fail_counts: BTreeMap<String, u64>,
    pub counters: BTreeMap<String, u64>,
    pub events: Option<std::io::BufWriter<std::fs::File>>,
    pub transcript: Option<std::io::BufWriter<std::fs::File>>,
    pub max_fail_lines: u64,
    pub samples: Vec<Value>,
}

impl Ctx {
    pub fn new() -> Self {
        Ctx {
            line: 0,
            case: Value::Null,
            asserts: BTreeMap::new(),
            fail_counts: BTreeMap::new(),
            counters: BTreeMap::new(),
            events: None,
            transcript: None,
            max_fail_lines: 40,
            samples: Vec::new(),
        }
    }

    pub fn count(&mut self, key: &str) {
        *self.counters.entry(key.to_owned()).or_insert(0) += 1;
    }

    /// One assertion tagged with the property it decides.
    pub fn check(&mut self, prop: &str, name: &str, inst: &str, ok: bool, exp: &Value, got: &Value) -> bool {
        *self.asserts.entry(prop.to_owned()).or_insert(0) += 1;
        if !ok {
            let n = self.fail_counts.entry(prop.to_owned()).or_insert(0);
            *n += 1;
            if *n <= self.max_fail_lines {
                let line = json!({"t": "fail", "prop": prop, "check": name, "inst": inst, "line": self.line,
                                  "exp": exp, "got": got, "case": self.case});
                println!("{}", line);
            }
        }
        ok
    }

    pub fn check_eq(&mut self, prop: &str, name: &str, inst: &str, exp: &Value, got: &Value) -> bool {
        self.check(prop, name, inst, exp == got, exp, got)
    }

    /// Leftover observation for impl -> spec trace validation.
    pub fn event(&mut self, ev: Value) {
        if let Some(f) = self.events.as_mut() {
            writeln!(f, "{}", ev).expect("write event");
            *self.counters.entry("events".to_owned()).or_insert(0) += 1;
        }
    }

    pub fn summary(&mut self) -> Value {
        if let Some(f) = self.events.as_mut() {
            f.flush().expect("flush events");
        }
        if let Some(f) = self.transcript.as_mut() {
            f.flush().expect("flush transcript");
        }
        json!({"t": "sum", "cases": self.line, "asserts": self.asserts, "fails": self.fail_counts,
               "counters": self.counters, "samples": self.samples})
    }
}

fn hash_of<H: Hash>(h: &H) -> u64 {
    let mut s = std::collections::hash_map::DefaultHasher::new();
    h.hash(&mut s);
    s.finish()
}

/// Requirements on a type parameter for the generic drivers.
pub trait Inst: PurlShape + FromStr + Clone + PartialEq + Eq + Hash + Ord + std::fmt::Debug
where
    <Self as PurlShape>::Error: ErrName + From<<Self as FromStr>::Err>,
{
}
impl<T> Inst for T
where
    T: PurlShape + FromStr + Clone + PartialEq + Eq + Hash + Ord + std::fmt::Debug,
    <T as PurlShape>::Error: ErrName + From<<T as FromStr>::Err>,
{
}

pub fn parse_outcome<T: Inst>(s: &str) -> (Value, Option<GenericPurl<T>>)
where
    <T as PurlShape>::Error: ErrName + From<<T as FromStr>::Err>,
{
    match catch_unwind(AssertUnwindSafe(|| GenericPurl::<T>::from_str(s))) {
        Err(_) => (json!({"panic": true}), None),
        Ok(Err(e)) => (json!({"ok": false, "err": e.err_name()}), None),
        Ok(Ok(p)) => {
            let o = outcome::<T, <T as PurlShape>::Error>(Ok(Ok(p.clone())));
            (o, Some(p))
        },
    }
}

/// Properties that hold for every PURL the library hands out, whatever produced it:
/// C01 (fixpoint, when T can be parsed), C10 (rebuild), C04 (collection coherence),
/// C19 (reflexive laws).  `known` lists values on which TLC has evaluated the
/// value-level invariants (Valid, structure, Render); any other value is written as
/// an event for trace validation.
pub fn universal<T: Inst>(ctx: &mut Ctx, inst: &str, p: &GenericPurl<T>, obs: &Value, known: &[&Value], origin: &str)
where
    <T as PurlShape>::Error: ErrName + From<<T as FromStr>::Err>,
{
    let null = Value::Null;
    // C01: canonical string is accepted, parses to an equal PURL, prints identically.
    if let Some(c) = display(p) {
        let (o2, p2) = parse_outcome::<T>(&c);
        match p2 {
            None => {
                ctx.check("C01", "canonical string is accepted", inst, false, obs, &o2);
            },
            Some(p2) => {
                ctx.check("C01", "reparse equals", inst, &p2 == p, obs, &o2);
                let c2 = display(&p2);
                ctx.check("C01", "reformat identical", inst, c2.as_deref() == Some(&*c), &obs["str"], &o2["str"]);
                ctx.check("C19", "equal values hash alike", inst, hash_of(&p2) == hash_of(p), &null, &null);
                ctx.check("C19", "equal values compare Equal", inst, p2.cmp(p) == std::cmp::Ordering::Equal, &null, &null);
            },
        }
    } else {
        ctx.check("C06", "Display panicked", inst, false, &null, obs);
    }
    // C10: rebuild is the identity.
    let r = catch_unwind(AssertUnwindSafe(|| p.clone().into_builder().build()));
    let ro = outcome::<T, <T as PurlShape>::Error>(r);
    ctx.check("C10", "into_builder().build() is the identity", inst, &ro == obs, obs, &ro);
    // C04 / C11: the qualifier list is coherent with its own lookups.
    let ex = quals_extras(p.qualifiers());
    let all = ex.as_object().map(|m| m.values().all(|b| b == &Value::Bool(true))).unwrap_or(false);
    ctx.check("C04", "qualifiers retrievable by key, iterate both ways", inst, all, &null, &ex);
    // accessors never report an empty string
    let acc_ok = p.namespace() != Some("") && p.version() != Some("") && p.subpath() != Some("");
    ctx.check("C04", "optional accessors never Some(\"\")", inst, acc_ok, &null, obs);
    // value-level invariants: evaluated by TLC, either already (known) or on the event
    if !known.iter().any(|k| **k == obs["v"]) {
        ctx.event(json!({"ev": "value", "inst": inst, "origin": origin, "generic": inst != "Test", "v": obs["v"], "str": obs["str"]}));
        ctx.count("values_to_trace");
    } else {
        ctx.count("values_known_to_tlc");
    }
}

/// Verdict of the specification against an observed outcome.
fn judge(ctx: &mut Ctx, inst: &str, jd: &Value, transcribed: &Value, obs: &Value) {
    let j = jd["j"].as_str().unwrap_or("un");
    ctx.check("C06", "no panic", inst, obs.get("panic").is_none() && obs["str"].get("panic").is_none(), &json!("value or error"), obs);
    match j {
        "acc" => {
            ctx.count("judged_accept");
            let exp = json!({"ok": true, "v": jd["v"], "str": jd["str"]});
            if ctx.check("C02", "strict spelling is accepted", inst, obs["ok"] == json!(true), &exp, obs) {
                let okv = ctx.check("C02", "components recovered exactly", inst, obs["v"] == jd["v"], &exp, obs);
                if inst == "Purl" {
                    ctx.check("C08", "typed value (name rule)", inst, obs["v"] == jd["v"], &exp, obs);
                }
                if okv {
                    ctx.check("C03", "canonical string", inst, obs["str"] == jd["str"], &exp, obs);
                }
            }
        },
        "err" => {
            ctx.count("judged_error_class");
            let exp = json!({"ok": false, "err": jd["err"]});
            ctx.check("C05", "refused with the matching error", inst, obs == &exp, &exp, obs);
        },
        "rej" => {
            ctx.count("judged_reject");
            ctx.check("C05", "never accepted", inst, obs["ok"] == json!(false), &json!({"ok": false}), obs);
        },
        _ => {
            ctx.count("unjudged");
            if obs != transcribed {
                ctx.count("drift");
            }
        },
    }
}

fn parse_inst<T: Inst>(ctx: &mut Ctx, inst: &str, s: &str, jd: &Value, transcribed: &Value) -> Value
where
    <T as PurlShape>::Error: ErrName + From<<T as FromStr>::Err>,
{
    let (obs, p) = parse_outcome::<T>(s);
    judge(ctx, inst, jd, transcribed, &obs);
    if let Some(p) = p {
        universal(ctx, inst, &p, &obs, &[&jd["v"], &transcribed["v"]], "parse");
    }
    obs
}

/// C08: relation between the typed and the type-agnostic parser on one string.
pub fn typed_vs_generic(ctx: &mut Ctx, g: &Value, t: &Value) {
    if t["ok"] == json!(true) {
        let same = g["ok"] == json!(true)
            && ["type", "ns", "ver", "quals", "sub"].iter().all(|f| g["v"][*f] == t["v"][*f]);
        ctx.check("C08", "typed agrees with generic outside the name", "Purl", same, g, t);
    }
}

/// C16: serde form is the string form.
#[cfg(feature = "sd")]
pub fn serde_checks<T: Inst>(ctx: &mut Ctx, inst: &str, s: &str, obs: &Value)
where
    <T as PurlShape>::Error: ErrName + From<<T as FromStr>::Err> + std::fmt::Display,
{
    let js = serde_json::to_string(s).expect("json string");
    let r = catch_unwind(AssertUnwindSafe(|| serde_json::from_str::<GenericPurl<T>>(&js)));
    match r {
        Err(_) => {
            ctx.check("C06", "deserialize panicked", inst, false, &Value::Null, &json!({"panic": true}));
        },
        Ok(Err(_)) => {
            ctx.check("C16", "deserialize fails exactly when parsing fails", inst, obs["ok"] == json!(false), obs, &json!({"ok": false}));
        },
        Ok(Ok(p)) => {
            let o = outcome::<T, <T as PurlShape>::Error>(Ok(Ok(p.clone())));
            ctx.check("C16", "deserialize gives the parsed PURL", inst, &o == obs, obs, &o);
            let ser = catch_unwind(AssertUnwindSafe(|| serde_json::to_string(&p)));
            match ser {
                Ok(Ok(text)) => {
                    let want = display(&p).map(|c| serde_json::to_string(&c).expect("json string"));
                    ctx.check("C16", "serialize is the canonical string", inst, Some(&text) == want.as_ref(), &json!(want), &json!(text));
                    let back = serde_json::from_str::<GenericPurl<T>>(&text);
                    ctx.check("C16", "JSON round trip", inst, back.as_ref().ok() == Some(&p), obs, &json!(text));
                },
                _ => {
                    ctx.check("C16", "serialize succeeds", inst, false, &Value::Null, &Value::Null);
                },
            }
        },
    }
}

pub fn run_parse(ctx: &mut Ctx, case: &Value, opts: &Opts) {
    let s = from_cps(&case["s"]);
    let g = parse_inst::<String>(ctx, "String", &s, &case["gj"], &case["go"]);
    #[cfg(feature = "ss")]
    {
        let g2 = parse_inst::<purl::SmallString>(ctx, "SmallString", &s, &case["gj"], &case["go"]);
        ctx.check_eq("C13", "String and SmallString parse alike", "SmallString", &g, &g2);
    }
    #[cfg(feature = "pt")]
    {
        let t = parse_inst::<purl::PackageType>(ctx, "Purl", &s, &case["tj"], &case["to"]);
        typed_vs_generic(ctx, &g, &t);
        #[cfg(feature = "sd")]
        if opts.serde {
            serde_checks::<purl::PackageType>(ctx, "Purl", &s, &t);
        }
    }
    #[cfg(feature = "sd")]
    if opts.serde {
        serde_checks::<String>(ctx, "String", &s, &g);
    }
    let _ = opts;
    if ctx.samples.len() < 3 && g["ok"] == json!(true) {
        ctx.samples.push(json!({"kind": "parse", "input": s, "judgement": case["gj"]["j"], "observed": g}));
    }
}

#[derive(Default, Clone)]
pub struct Opts {
    pub serde: bool,
}

pub fn run_case(ctx: &mut Ctx, case: &Value, opts: &Opts) {
    match case["k"].as_str().unwrap_or("") {
        "parse" => run_parse(ctx, case, opts),
        other => {
            eprintln!("unknown case kind {:?} at line {}", other, ctx.line);
            std::process::exit(2);
        },
    }
}

#[allow(dead_code)]
pub fn builder_of<T>(t: T, name: &str) -> GenericPurlBuilder<T> {
    GenericPurlBuilder::new(t, name)
}
