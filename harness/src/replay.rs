//! spec -> impl: execute cases printed by TLC against the real library and compare
//! with the outcome the specification allows.

use std::collections::BTreeMap;
use std::hash::{Hash, Hasher};
use std::io::Write;
use std::panic::{catch_unwind, AssertUnwindSafe};
use std::str::FromStr;

use purl::{GenericPurl, GenericPurlBuilder, PurlShape};
use serde_json::{json, Value};

use crate::proj::*;

/// The library's small string: public only with the smartstring feature, otherwise `String`.
#[cfg(feature = "ss")]
pub type SmallStr = purl::SmallString;
#[cfg(not(feature = "ss"))]
pub type SmallStr = String;

pub struct Ctx {
    pub line: usize,
    pub case: Value,
    pub asserts: BTreeMap<String, u64>,
    pub fail_counts: BTreeMap<String, u64>,
    pub counters: BTreeMap<String, u64>,
    pub events: Option<std::io::BufWriter<std::fs::File>>,
    pub transcript: Option<std::io::BufWriter<std::fs::File>>,
    pub max_fail_lines: u64,
    pub samples: Vec<Value>,
    pub serde: bool,
    pub pool: Vec<Value>,
}

impl Ctx {
    pub fn new() -> Self {
        Ctx {
            line: 0,
            case: Value::Null,
            asserts: BTreeMap::new(),
            fail_counts: BTreeMap::new(),
            counters: BTreeMap::new(),
            events: None,
            transcript: None,
            max_fail_lines: 40,
            samples: Vec::new(),
            serde: false,
            pool: Vec::new(),
        }
    }

    pub fn count(&mut self, key: &str) {
        *self.counters.entry(key.to_owned()).or_insert(0) += 1;
    }

    /// One assertion tagged with the property it decides.
    pub fn check(&mut self, prop: &str, name: &str, inst: &str, ok: bool, exp: &Value, got: &Value) -> bool {
        *self.asserts.entry(prop.to_owned()).or_insert(0) += 1;
        if !ok {
            let n = self.fail_counts.entry(prop.to_owned()).or_insert(0);
            *n += 1;
            if *n <= self.max_fail_lines {
                let line = json!({"t": "fail", "prop": prop, "check": name, "inst": inst, "line": self.line,
                                  "exp": exp, "got": got, "case": self.case});
                println!("{}", line);
            }
        }
        ok
    }

    pub fn check_eq(&mut self, prop: &str, name: &str, inst: &str, exp: &Value, got: &Value) -> bool {
        self.check(prop, name, inst, exp == got, exp, got)
    }

    /// Leftover observation for impl -> spec trace validation.
    pub fn event(&mut self, ev: Value) {
        if let Some(f) = self.events.as_mut() {
            writeln!(f, "{}", ev).expect("write event");
            *self.counters.entry("events".to_owned()).or_insert(0) += 1;
        }
    }

    pub fn summary(&mut self) -> Value {
        if let Some(f) = self.events.as_mut() {
            f.flush().expect("flush events");
        }
        if let Some(f) = self.transcript.as_mut() {
            f.flush().expect("flush transcript");
        }
        json!({"t": "sum", "cases": self.line, "asserts": self.asserts, "fails": self.fail_counts,
               "counters": self.counters, "samples": self.samples})
    }
}

fn hash_of<H: Hash>(h: &H) -> u64 {
    let mut s = std::collections::hash_map::DefaultHasher::new();
    h.hash(&mut s);
    s.finish()
}

/// Requirements on a type parameter for the generic drivers.
pub trait Inst: PurlShape + FromStr + Clone + PartialEq + Eq + Hash + Ord + std::fmt::Debug
where
    <Self as PurlShape>::Error: ErrName + From<<Self as FromStr>::Err>,
{
}
impl<T> Inst for T
where
    T: PurlShape + FromStr + Clone + PartialEq + Eq + Hash + Ord + std::fmt::Debug,
    <T as PurlShape>::Error: ErrName + From<<T as FromStr>::Err>,
{
}

pub fn parse_outcome<T: Inst>(s: &str) -> (Value, Option<GenericPurl<T>>)
where
    <T as PurlShape>::Error: ErrName + From<<T as FromStr>::Err>,
{
    match catch_unwind(AssertUnwindSafe(|| GenericPurl::<T>::from_str(s))) {
        Err(_) => (json!({"panic": true}), None),
        Ok(Err(e)) => (json!({"ok": false, "err": e.err_name()}), None),
        Ok(Ok(p)) => {
            let o = outcome::<T, <T as PurlShape>::Error>(Ok(Ok(p.clone())));
            (o, Some(p))
        },
    }
}

/// Properties that hold for every PURL the library hands out, whatever produced it and
/// whatever the type parameter: C10 (rebuild), C04 (collection coherence).  `known` lists
/// values on which TLC has evaluated the value-level invariants (Valid, structure, Render);
/// any other value is written as an event for trace validation.
pub fn universal_noparse<T>(ctx: &mut Ctx, inst: &str, p: &GenericPurl<T>, obs: &Value, known: &[&Value], origin: &str)
where
    T: PurlShape + Clone + PartialEq + Eq + Hash + Ord,
    <T as PurlShape>::Error: ErrName,
{
    let null = Value::Null;
    if display(p).is_none() {
        ctx.check("C06", "Display panicked", inst, false, &null, obs);
    }
    // C10: rebuild is the identity.
    let r = catch_unwind(AssertUnwindSafe(|| p.clone().into_builder().build()));
    let ro = outcome::<T, <T as PurlShape>::Error>(r);
    ctx.check("C10", "into_builder().build() is the identity", inst, &ro == obs, obs, &ro);
    // C04 / C11: the qualifier list is coherent with its own lookups.
    let ex = quals_extras(p.qualifiers());
    let all = ex.as_object().map(|m| m.values().all(|b| b == &Value::Bool(true))).unwrap_or(false);
    ctx.check("C04", "qualifiers retrievable by key, iterate both ways", inst, all, &null, &ex);
    // C12: reading the checksum back through the typed accessor gives the same entries
    if let Some(text) = p.qualifiers().get("checksum") {
        let typed = p.qualifiers().try_get_typed::<purl::qualifiers::well_known::Checksum>();
        let again = match typed {
            Ok(Some(ck)) => SmallStr::try_from(ck).ok().map(|s| s.to_string()),
            _ => None,
        };
        ctx.check("C12", "typed accessor re-serialises to the PURL's checksum text", inst, again.as_deref() == Some(text), &json!(text), &json!(again));
    }
    // C04 on a re-build after an edit of the handed-out qualifiers: a value blanked through IndexMut, get_mut or
    // iter_mut on the builder's public parts is dropped by build() like any other empty value
    // (not for user-supplied shapes, whose hook edits the parts again on every build)
    if !p.qualifiers().is_empty() && origin != "shape" {
        let keys: Vec<String> = p.qualifiers().iter().map(|(k, _)| k.as_str().to_owned()).collect();
        let r = catch_unwind(AssertUnwindSafe(|| {
            let mut ok = true;
            for (i, key) in keys.iter().enumerate() {
                let mut b = p.clone().into_builder();
                match i % 3 {
                    0 => b.parts.qualifiers[key.as_str()] = "".into(),
                    1 => {
                        if let Some(v) = b.parts.qualifiers.get_mut(key.as_str()) {
                            *v = "".into();
                        }
                    },
                    _ => {
                        for (k, v) in b.parts.qualifiers.iter_mut() {
                            if k.as_str() == key {
                                *v = "".into();
                            }
                        }
                    },
                }
                match b.build() {
                    Ok(q) => ok &= q.qualifiers().get(key.as_str()).is_none() && q.qualifiers().len() == keys.len() - 1 && q.qualifiers().iter().all(|(_, v)| !v.is_empty()),
                    Err(_) => ok = false,
                }
            }
            ok
        }));
        ctx.check("C04", "a qualifier blanked in the builder of a handed-out PURL (IndexMut / get_mut / iter_mut) is dropped by build()", inst,
                  r.unwrap_or(false), &null, obs);
    }
    // C03 after a failed write: Display into a sink that gives up part-way, then to_string() again
    if let Some(c) = display(p) {
        struct Short(usize);
        impl std::fmt::Write for Short {
            fn write_str(&mut self, s: &str) -> std::fmt::Result {
                if s.len() > self.0 {
                    self.0 = 0;
                    Err(std::fmt::Error)
                } else {
                    self.0 -= s.len();
                    Ok(())
                }
            }
        }
        let again = catch_unwind(AssertUnwindSafe(|| {
            for room in [0usize, 3, c.len() / 2, c.len().saturating_sub(1)] {
                let _ = std::fmt::Write::write_fmt(&mut Short(room), format_args!("{}", p));
            }
            p.to_string()
        }));
        ctx.check("C03", "to_string() is the same after writes into a sink that failed part-way", inst, again.as_ref().ok() == Some(&c), &json!(c), &json!(again.ok()));
    }
    // accessors never report an empty string
    let acc_ok = p.namespace() != Some("") && p.version() != Some("") && p.subpath() != Some("");
    ctx.check("C04", "optional accessors never Some(\"\")", inst, acc_ok, &null, obs);
    // C16: the serde form of every value is its canonical string
    #[cfg(feature = "sd")]
    if ctx.serde {
        if let Some(c) = display(p) {
            let ser = catch_unwind(AssertUnwindSafe(|| serde_json::to_string(p)));
            let want = serde_json::to_string(&c).expect("json string");
            // a serializer that fails must leave nothing behind that changes the next serialisation
            let _ = catch_unwind(AssertUnwindSafe(|| serde::Serialize::serialize(p, crate::strser::StrOnly { human_readable: true, fail: true })));
            // any Serializer must receive exactly one string: a compact (not human-readable) one as well
            for hr in [true, false] {
                let r = catch_unwind(AssertUnwindSafe(|| serde::Serialize::serialize(p, crate::strser::StrOnly { human_readable: hr, fail: false })));
                let got = match r {
                    Ok(Ok(s)) => json!(s),
                    Ok(Err(e)) => json!({"refused": e.0}),
                    Err(_) => json!({"panic": true}),
                };
                ctx.check("C16", "serialize hands the canonical string to any serializer as one string value", inst, got == json!(c), &json!(c), &got);
            }
            match ser {
                Ok(Ok(text)) => {
                    ctx.check("C16", "serialize is exactly the canonical string", inst, text == want, &json!(want), &json!(text));
                },
                _ => {
                    ctx.check("C16", "serialize succeeds", inst, false, &json!(want), &Value::Null);
                },
            }
        }
    }
    // C19 reflexive laws on a clone
    let q = p.clone();
    ctx.check("C19", "clone is equal, hashes alike, compares Equal", inst,
              &q == p && hash_of(&q) == hash_of(p) && q.cmp(p) == std::cmp::Ordering::Equal, &null, &null);
    // value-level invariants: evaluated by TLC, either already (known) or on the event
    if !known.iter().any(|k| **k == obs["v"]) {
        ctx.event(for_tlc(&json!({"ev": "value", "inst": inst, "origin": origin, "generic": !inst.starts_with("Test"), "v": obs["v"], "str": obs["str"]})));
        ctx.count("values_to_trace");
    } else {
        ctx.count("values_known_to_tlc");
    }
}

/// universal_noparse plus C01 (fixpoint) for type parameters that can be parsed.
pub fn universal<T: Inst>(ctx: &mut Ctx, inst: &str, p: &GenericPurl<T>, obs: &Value, known: &[&Value], origin: &str)
where
    <T as PurlShape>::Error: ErrName + From<<T as FromStr>::Err>,
{
    let null = Value::Null;
    // C01: for a value obtained from the parser, its canonical string is accepted, parses to an
    // equal PURL, and prints identically.  For a built value the statement applies to whatever
    // its printed form parses to (C09 decides whether that is the built value itself).
    if let Some(c) = display(p) {
        let (o2, p2) = parse_outcome::<T>(&c);
        match p2 {
            None => {
                if origin == "parse" {
                    ctx.check("C01", "canonical string is accepted", inst, false, obs, &o2);
                }
            },
            Some(p2) => {
                if origin == "parse" {
                    ctx.check("C01", "reparse equals", inst, &p2 == p, obs, &o2);
                    let c2 = display(&p2);
                    ctx.check("C01", "reformat identical", inst, c2.as_deref() == Some(&*c), &obs["str"], &o2["str"]);
                    ctx.check("C19", "equal values hash alike", inst, hash_of(&p2) == hash_of(p), &null, &null);
                    ctx.check("C19", "equal values compare Equal", inst, p2.cmp(p) == std::cmp::Ordering::Equal, &null, &null);
                } else if let Some(c2) = display(&p2) {
                    // C19 for a built value and the value its printed form parses to: equal exactly when their strings are equal
                    ctx.check("C19", "built value and its re-parsed form: equal exactly when the canonical strings are equal", inst,
                              (&p2 == p) == (c2 == c) && (p2.cmp(p) == std::cmp::Ordering::Equal) == (&p2 == p)
                                  && (&p2 != p || hash_of(&p2) == hash_of(p)), obs, &o2);
                    let (o3, p3) = parse_outcome::<T>(&c2);
                    let fix = p3.as_ref() == Some(&p2) && p3.as_ref().and_then(display).as_deref() == Some(&*c2);
                    ctx.check("C01", "printed form of a built value re-parses to a fixpoint", inst, fix, &o2, &o3);
                }
            },
        }
    }
    universal_noparse(ctx, inst, p, obs, known, origin);
}

/// Verdict of the specification against an observed outcome.
fn judge(ctx: &mut Ctx, inst: &str, jd: &Value, transcribed: &Value, obs: &Value) {
    let j = jd["j"].as_str().unwrap_or("un");
    ctx.check("C06", "no panic", inst, obs.get("panic").is_none() && obs["str"].get("panic").is_none(), &json!("value or error"), obs);
    match j {
        "acc" => {
            ctx.count("judged_accept");
            let exp = json!({"ok": true, "v": jd["v"], "str": jd["str"]});
            if ctx.check("C02", "strict spelling is accepted", inst, obs["ok"] == json!(true), &exp, obs) {
                let okv = ctx.check("C02", "components recovered exactly", inst, obs["v"] == jd["v"], &exp, obs);
                ctx.check("C07", "namespace and subpath are exactly the non-skipped decoded pieces", inst,
                          obs["v"]["ns"] == jd["v"]["ns"] && obs["v"]["sub"] == jd["v"]["sub"], &exp, obs);
                if inst == "Purl" {
                    ctx.check("C08", "typed value (name rule)", inst, obs["v"] == jd["v"], &exp, obs);
                }
                if okv {
                    ctx.check("C03", "canonical string", inst, obs["str"] == jd["str"], &exp, obs);
                }
            }
        },
        "err" => {
            ctx.count("judged_error_class");
            let exp = json!({"ok": false, "err": jd["err"]});
            ctx.check("C05", "refused with the matching error", inst, obs == &exp, &exp, obs);
            if inst == "Purl" && jd["err"] == json!("UnsupportedType") {
                ctx.check("C08", "a well-formed type other than the seven known ones is refused by the typed PURL", inst, obs == &exp, &exp, obs);
            }
            if inst == "Purl" && (jd["err"] == json!("UnsupportedType") || jd["err"] == json!("Parse:InvalidPackageType")) {
                ctx.check("C15", "a type string that is not the name of a known type is never taken for one", inst, obs["ok"] == json!(false), &exp, obs);
            }
        },
        "rej" => {
            ctx.count("judged_reject");
            ctx.check("C05", "never accepted", inst, obs["ok"] == json!(false), &json!({"ok": false}), obs);
        },
        _ => {
            ctx.count("unjudged");
            if obs != transcribed {
                ctx.count("drift");
            }
        },
    }
}

fn parse_inst<T: Inst>(ctx: &mut Ctx, inst: &str, s: &str, jd: &Value, transcribed: &Value) -> Value
where
    <T as PurlShape>::Error: ErrName + From<<T as FromStr>::Err>,
{
    let (obs, p) = parse_outcome::<T>(s);
    judge(ctx, inst, jd, transcribed, &obs);
    if let Some(p) = p {
        universal(ctx, inst, &p, &obs, &[&jd["v"], &transcribed["v"]], "parse");
    }
    obs
}

/// C08: relation between the typed and the type-agnostic parser on one string.
pub fn typed_vs_generic(ctx: &mut Ctx, g: &Value, t: &Value) {
    if t["ok"] == json!(true) {
        let same = g["ok"] == json!(true)
            && ["type", "ns", "ver", "quals", "sub"].iter().all(|f| g["v"][*f] == t["v"][*f]);
        ctx.check("C08", "typed agrees with generic outside the name", "Purl", same, g, t);
    }
}

/// C16: serde form is the string form.
#[cfg(feature = "sd")]
pub fn serde_checks<T: Inst>(ctx: &mut Ctx, inst: &str, s: &str, obs: &Value)
where
    <T as PurlShape>::Error: ErrName + From<<T as FromStr>::Err> + std::fmt::Display,
{
    let js = serde_json::to_string(s).expect("json string");
    let r = catch_unwind(AssertUnwindSafe(|| serde_json::from_str::<GenericPurl<T>>(&js)));
    match r {
        Err(_) => {
            ctx.check("C06", "deserialize panicked", inst, false, &Value::Null, &json!({"panic": true}));
        },
        Ok(Err(_)) => {
            ctx.check("C16", "deserialize fails exactly when parsing fails", inst, obs["ok"] == json!(false), obs, &json!({"ok": false}));
        },
        Ok(Ok(p)) => {
            let o = outcome::<T, <T as PurlShape>::Error>(Ok(Ok(p.clone())));
            ctx.check("C16", "deserialize gives the parsed PURL", inst, &o == obs, obs, &o);
            let ser = catch_unwind(AssertUnwindSafe(|| serde_json::to_string(&p)));
            match ser {
                Ok(Ok(text)) => {
                    let want = display(&p).map(|c| serde_json::to_string(&c).expect("json string"));
                    ctx.check("C16", "serialize is the canonical string", inst, Some(&text) == want.as_ref(), &json!(want), &json!(text));
                    let back = serde_json::from_str::<GenericPurl<T>>(&text);
                    ctx.check("C16", "JSON round trip", inst, back.as_ref().ok() == Some(&p), obs, &json!(text));
                },
                _ => {
                    ctx.check("C16", "serialize succeeds", inst, false, &Value::Null, &Value::Null);
                },
            }
        },
    }
}

pub fn run_parse(ctx: &mut Ctx, case: &Value, opts: &Opts) {
    let s = from_cps(&case["s"]);
    let g = parse_inst::<String>(ctx, "String", &s, &case["gj"], &case["go"]);
    #[cfg(feature = "ss")]
    {
        let g2 = parse_inst::<purl::SmallString>(ctx, "SmallString", &s, &case["gj"], &case["go"]);
        ctx.check_eq("C13", "String and SmallString parse alike", "SmallString", &g, &g2);
    }
    #[cfg(feature = "pt")]
    {
        let t = parse_inst::<purl::PackageType>(ctx, "Purl", &s, &case["tj"], &case["to"]);
        typed_vs_generic(ctx, &g, &t);
        #[cfg(feature = "sd")]
        if opts.serde {
            serde_checks::<purl::PackageType>(ctx, "Purl", &s, &t);
        }
    }
    #[cfg(feature = "sd")]
    if opts.serde {
        serde_checks::<String>(ctx, "String", &s, &g);
    }
    let _ = opts;
    if ctx.transcript.is_some() {
        // C17: observable result of the type-agnostic API incl. the error text
        let text = match GenericPurl::<String>::from_str(&s) {
            Ok(_) => String::new(),
            Err(e) => e.to_string(),
        };
        #[allow(unused_mut)]
        let mut line = json!({"i": ctx.line, "k": "parse", "o": g, "text": text});
        #[cfg(feature = "pt")]
        {
            // typed API, where the build has it
            let (t, _) = parse_outcome::<purl::PackageType>(&s);
            let ttext = match GenericPurl::<purl::PackageType>::from_str(&s) {
                Ok(_) => String::new(),
                Err(e) => e.to_string(),
            };
            line["ot"] = t;
            line["ttext"] = json!(ttext);
        }
        if let Some(f) = ctx.transcript.as_mut() {
            writeln!(f, "{}", line).expect("write transcript");
        }
    }
    if ctx.samples.len() < 3 && g["ok"] == json!(true) {
        ctx.samples.push(json!({"kind": "parse", "input": s, "judgement": case["gj"]["j"], "observed": g}));
    }
}

// --------------------------------------------------------------------------- build cases

/// Construct a builder through the public setters from the spec's [st, parts].
fn make_builder<T>(t: T, parts: &Value) -> Result<GenericPurlBuilder<T>, purl::ParseError> {
    let mut b = GenericPurlBuilder::new(t, from_cps(&parts["name"]));
    b = b.with_namespace(from_cps(&parts["ns"]));
    b = b.with_version(from_cps(&parts["ver"]));
    b = b.with_subpath(from_cps(&parts["sub"]));
    if let Some(qs) = parts["quals"].as_array() {
        for q in qs {
            b = b.with_qualifier(from_cps(&q[0]), from_cps(&q[1]))?;
        }
    }
    Ok(b)
}

fn build_inst<T>(ctx: &mut Ctx, inst: &str, t: T, case: &Value) -> (Value, Option<GenericPurl<T>>)
where
    T: PurlShape + Clone + PartialEq + Eq + Hash + Ord,
    <T as PurlShape>::Error: ErrName + From<purl::ParseError>,
{
    let parts = &case["parts"];
    // two ways into the same builder state: the public setters (Cow, SmallString runs), or direct writes to the
    // public fields (String and Purl runs), so that values a setter might normalise (empty qualifier values) reach build()
    let direct = inst == "String" || inst == "Purl";
    let r = catch_unwind(AssertUnwindSafe(|| -> Result<GenericPurl<T>, <T as PurlShape>::Error> {
        let b = if direct { builder_in_state(t, parts) } else { make_builder(t, parts)? };
        b.build()
    }));
    let (obs, p) = match r {
        Err(_) => (json!({"panic": true}), None),
        Ok(Err(e)) => (json!({"ok": false, "err": e.err_name()}), None),
        Ok(Ok(p)) => (outcome::<T, <T as PurlShape>::Error>(Ok(Ok(p.clone()))), Some(p)),
    };
    let exp = &case["out"];
    ctx.check("C06", "no panic", inst, obs.get("panic").is_none() && obs["str"].get("panic").is_none(), &json!("value or error"), &obs);
    if inst == "Purl" {
        ctx.check("C08", "the type's own rule decides whether the builder accepts (maven needs a namespace, nothing else is refused)", inst,
                  obs["ok"] == exp["ok"], exp, &obs);
    }
    if exp["ok"] == json!(true) {
        if ctx.check("C09", "build succeeds when name, type, type rule, keys and checksum are fine", inst, obs["ok"] == json!(true), exp, &obs) {
            let okv = ctx.check("C09", "accessors return what was set (normalised)", inst, obs["v"] == exp["v"], exp, &obs);
            if inst == "Purl" {
                ctx.check("C08", "builder applies the type's name rule", inst, obs["v"]["name"] == exp["v"]["name"], exp, &obs);
            }
            if okv {
                ctx.check("C03", "canonical string", inst, obs["str"] == exp["str"], exp, &obs);
            }
        }
    } else {
        ctx.check("C09", "build is refused", inst, obs["ok"] == json!(false), exp, &obs);
        if case["jerr"] == json!(true) {
            ctx.check("C08", "refused with the demanded error", inst, &obs == exp, exp, &obs);
        } else if &obs != exp {
            ctx.count("drift");
        }
    }
    (obs, p)
}

/// C09: the printed form is accepted by the parser and yields the same fields.
fn parse_back<T: Inst>(ctx: &mut Ctx, inst: &str, obs: &Value, case: &Value)
where
    <T as PurlShape>::Error: ErrName + From<<T as FromStr>::Err>,
{
    if obs["ok"] != json!(true) || !obs["str"].is_array() {
        return;
    }
    let c = from_cps(&obs["str"]);
    let (o2, _) = parse_outcome::<T>(&c);
    let want = &case["rt"];
    ctx.check("C09", "string form parses back to the same fields", inst, o2["ok"] == json!(true) && &o2["v"] == want, want, &o2);
}

pub fn run_build(ctx: &mut Ctx, case: &Value) {
    let st = from_cps(&case["st"]);
    let exp_v = &case["out"]["v"];
    if case["sh"] == json!("generic") {
        let (g, p) = build_inst::<String>(ctx, "String", st.clone(), case);
        if let Some(p) = &p {
            universal(ctx, "String", p, &g, &[exp_v], "build");
        }
        if ctx.transcript.is_some() {
            let line = json!({"i": ctx.line, "k": "build", "o": g});
            if let Some(f) = ctx.transcript.as_mut() {
                writeln!(f, "{}", line).expect("write transcript");
            }
        }
        parse_back::<String>(ctx, "String", &g, case);
        {
            let (o, p) = build_inst::<std::borrow::Cow<str>>(ctx, "CowBorrowed", std::borrow::Cow::Borrowed(&st), case);
            if let Some(p) = &p {
                universal_noparse(ctx, "CowBorrowed", p, &o, &[exp_v], "build");
            }
            ctx.check_eq("C13", "String and Cow::Borrowed build alike", "CowBorrowed", &g, &o);
            let (o, p) = build_inst::<std::borrow::Cow<str>>(ctx, "CowOwned", std::borrow::Cow::Owned(st.clone()), case);
            if let Some(p) = &p {
                universal_noparse(ctx, "CowOwned", p, &o, &[exp_v], "build");
            }
            ctx.check_eq("C13", "String and Cow::Owned build alike", "CowOwned", &g, &o);
        }
        #[cfg(feature = "ss")]
        {
            let (o, p) = build_inst::<purl::SmallString>(ctx, "SmallString", purl::SmallString::from(st.as_str()), case);
            if let Some(p) = &p {
                universal(ctx, "SmallString", p, &o, &[exp_v], "build");
            }
            ctx.check_eq("C13", "String and SmallString build alike", "SmallString", &g, &o);
        }
        // GenericPurl::new(type, name) is builder(type, name).build()
        let p0 = &case["parts"];
        if p0["ns"] == json!([]) && p0["ver"] == json!([]) && p0["sub"] == json!([]) && p0["quals"] == json!([]) {
            let r = catch_unwind(AssertUnwindSafe(|| GenericPurl::<String>::new(st.clone(), from_cps(&p0["name"]))));
            let o = outcome::<String, purl::ParseError>(r);
            ctx.check_eq("C09", "GenericPurl::new equals builder().build()", "String", &g, &o);
        }
        if ctx.samples.len() < 3 {
            ctx.samples.push(json!({"kind": "build", "type": st, "parts": case["parts"], "observed": g}));
        }
    } else {
        #[cfg(feature = "pt")]
        {
            let Ok(t) = <purl::PackageType as FromStr>::from_str(&st) else {
                eprintln!("typed build case with unknown type {:?}", st);
                std::process::exit(2);
            };
            let (o, p) = build_inst::<purl::PackageType>(ctx, "Purl", t, case);
            if let Some(p) = &p {
                universal(ctx, "Purl", p, &o, &[exp_v], "build");
            }
            parse_back::<purl::PackageType>(ctx, "Purl", &o, case);
            if ctx.samples.len() < 3 {
                ctx.samples.push(json!({"kind": "build", "type": st, "parts": case["parts"], "observed": o}));
            }
        }
    }
}

// --------------------------------------------------------------------------- builder transitions and sequences

fn quals_from(v: &Value) -> purl::Qualifiers {
    let pairs: Vec<(String, String)> =
        v.as_array().map(|a| a.iter().map(|q| (from_cps(&q[0]), from_cps(&q[1]))).collect()).unwrap_or_default();
    purl::Qualifiers::try_from_iter(pairs).expect("spec builder states hold valid distinct keys")
}

/// Builder in the abstract state [st, parts], constructed through the public fields.
fn builder_in_state<T>(t: T, parts: &Value) -> GenericPurlBuilder<T> {
    let mut b = GenericPurlBuilder::new(t, from_cps(&parts["name"]));
    b.parts.namespace = from_cps(&parts["ns"]).into();
    b.parts.version = from_cps(&parts["ver"]).into();
    b.parts.subpath = from_cps(&parts["sub"]).into();
    b.parts.qualifiers = quals_from(&parts["quals"]);
    b
}

fn parts_json(p: &purl::PurlParts) -> Value {
    json!({"ns": cps(&p.namespace), "name": cps(&p.name), "ver": cps(&p.version),
           "quals": quals_json(&p.qualifiers), "sub": cps(&p.subpath)})
}

/// Type parameters whose value can be made from / shown as the spec's `st` string.
pub trait StShape: PurlShape + Sized {
    fn from_st(s: &str) -> Option<Self>;
    fn st(&self) -> String;
}
impl StShape for String {
    fn from_st(s: &str) -> Option<Self> {
        Some(s.to_owned())
    }
    fn st(&self) -> String {
        self.clone()
    }
}
impl StShape for std::borrow::Cow<'static, str> {
    fn from_st(s: &str) -> Option<Self> {
        Some(std::borrow::Cow::Owned(s.to_owned()))
    }
    fn st(&self) -> String {
        self.to_string()
    }
}
#[cfg(feature = "ss")]
impl StShape for purl::SmallString {
    fn from_st(s: &str) -> Option<Self> {
        Some(purl::SmallString::from(s))
    }
    fn st(&self) -> String {
        self.to_string()
    }
}
#[cfg(feature = "pt")]
impl StShape for purl::PackageType {
    fn from_st(s: &str) -> Option<Self> {
        <purl::PackageType as FromStr>::from_str(s).ok()
    }
    fn st(&self) -> String {
        self.name().to_owned()
    }
}

/// What a session (PurlSystem) needs besides: the serde steps and, for the typed PURL, combined names.
pub trait SysShape: StShape {
    fn ser(p: &GenericPurl<Self>) -> String;
    fn de(s: &str) -> Result<GenericPurl<Self>, String>;
    fn combined(_t: &str, _c: &str) -> Option<GenericPurlBuilder<Self>> {
        None
    }
    fn combined_name(_p: &GenericPurl<Self>) -> Value {
        Value::Null
    }
}
macro_rules! sys_shape_serde {
    () => {
        #[cfg(feature = "sd")]
        fn ser(p: &GenericPurl<Self>) -> String {
            // the JSON text must be one string value; what that string says is the step's result
            let text = serde_json::to_string(p).unwrap_or_else(|e| format!("\"<serialize failed: {}>\"", e));
            serde_json::from_str::<String>(&text).unwrap_or_else(|_| format!("<not a JSON string: {}>", text))
        }
        #[cfg(feature = "sd")]
        fn de(s: &str) -> Result<GenericPurl<Self>, String> {
            let js = serde_json::to_string(s).expect("json string");
            serde_json::from_str::<GenericPurl<Self>>(&js).map_err(|_| "serde".to_owned())
        }
        #[cfg(not(feature = "sd"))]
        fn ser(p: &GenericPurl<Self>) -> String {
            p.to_string()
        }
        #[cfg(not(feature = "sd"))]
        fn de(s: &str) -> Result<GenericPurl<Self>, String> {
            GenericPurl::<Self>::from_str(s).map_err(|e| e.err_name())
        }
    };
}
impl SysShape for String {
    sys_shape_serde!();
}
#[cfg(feature = "ss")]
impl SysShape for purl::SmallString {
    sys_shape_serde!();
}
#[cfg(feature = "pt")]
impl SysShape for purl::PackageType {
    sys_shape_serde!();
    fn combined(t: &str, c: &str) -> Option<GenericPurlBuilder<Self>> {
        <purl::PackageType as FromStr>::from_str(t).ok().map(|t| purl::Purl::builder_with_combined_name(t, c))
    }
    fn combined_name(p: &GenericPurl<Self>) -> Value {
        cps(&p.combined_name())
    }
}

fn builder_json<T: StShape>(b: &GenericPurlBuilder<T>) -> Value {
    json!({"st": cps(&b.package_type.st()), "parts": parts_json(&b.parts)})
}

/// Apply one op (a tuple <<name, args..>> of the spec) through the public builder method.
pub fn apply_op<T: StShape>(b: GenericPurlBuilder<T>, op: &Value) -> Result<GenericPurlBuilder<T>, purl::ParseError> {
    use purl::qualifiers::well_known::{Checksum, RepositoryUrl};
    let name = op[0].as_str().unwrap_or("");
    let a1 = if name == "try_with_typed_checksum" { String::new() } else { from_cps(&op[1]) };
    Ok(match name {
        "with_package_type" => b.with_package_type(T::from_st(&a1).expect("type of the universe")),
        "with_namespace" => b.with_namespace(a1),
        "edit_type" => {
            let mut b = b;
            b.package_type = T::from_st(&a1).expect("type of the universe");
            b
        },
        "edit_ns" => {
            let mut b = b;
            b.parts.namespace = a1.into();
            b
        },
        "edit_name" => {
            let mut b = b;
            b.parts.name = a1.into();
            b
        },
        "edit_qual" => {
            let mut b = b;
            let _ = b.parts.qualifiers.insert(a1, from_cps(&op[2]));
            b
        },
        "without_namespace" => b.without_namespace(),
        "with_name" => b.with_name(a1),
        "with_version" => b.with_version(a1),
        "without_version" => b.without_version(),
        "with_subpath" => b.with_subpath(a1),
        "without_subpath" => b.without_subpath(),
        "with_qualifier" => b.with_qualifier(a1, from_cps(&op[2]))?,
        "without_qualifier" => b.without_qualifier(a1),
        "without_qualifiers" => b.without_qualifiers(),
        "with_typed_repo" => b.with_typed_qualifier(Some(RepositoryUrl::from(a1.as_str()))),
        "without_typed_repo" => b.with_typed_qualifier(None::<RepositoryUrl>),
        "try_with_typed_checksum" => {
            let mut ck = Checksum::default();
            if let Some(es) = op[1].as_array() {
                for e in es {
                    ck.insert_raw(&from_cps(&e[0]), from_cps(&e[1]));
                }
            }
            b.try_with_typed_qualifier(Some(ck))?
        },
        "without_typed_checksum" => b.try_with_typed_qualifier(None::<Checksum>)?,
        other => {
            eprintln!("unknown builder op {:?}", other);
            std::process::exit(2);
        },
    })
}

fn bop_inst<T: StShape + Clone>(ctx: &mut Ctx, inst: &str, case: &Value) {
    let pre = &case["pre"];
    let Some(t) = T::from_st(&from_cps(&pre["st"])) else { return };
    let r = catch_unwind(AssertUnwindSafe(|| {
        let b = builder_in_state(t, &pre["parts"]);
        apply_op(b, &case["op"])
    }));
    let obs = match r {
        Err(_) => json!({"panic": true}),
        Ok(Err(e)) => json!({"ok": false, "err": e.err_name()}),
        Ok(Ok(b)) => json!({"ok": true, "b": builder_json(&b)}),
    };
    ctx.check("C06", "no panic", inst, obs.get("panic").is_none(), &json!("builder or error"), &obs);
    ctx.check("C09", "setter changes exactly its own field", inst, obs == case["post"], &case["post"], &obs);
    if case["op"][0] == json!("try_with_typed_checksum") {
        ctx.check("C12", "a typed checksum set through the builder is the text the builder carries", inst, obs == case["post"], &case["post"], &obs);
    }
}

pub fn run_bop(ctx: &mut Ctx, case: &Value) {
    if case["sh"] == json!("generic") {
        bop_inst::<String>(ctx, "String", case);
        bop_inst::<std::borrow::Cow<'static, str>>(ctx, "CowOwned", case);
        #[cfg(feature = "ss")]
        bop_inst::<purl::SmallString>(ctx, "SmallString", case);
    } else {
        #[cfg(feature = "pt")]
        bop_inst::<purl::PackageType>(ctx, "Purl", case);
    }
    if ctx.samples.len() < 2 {
        ctx.samples.push(json!({"kind": "builder transition", "case": case}));
    }
}

fn bseq_inst<T>(ctx: &mut Ctx, inst: &str, case: &Value) -> Value
where
    T: StShape + Clone + PartialEq + Eq + Hash + Ord,
    <T as PurlShape>::Error: ErrName + From<purl::ParseError>,
{
    let ops = case["ops"].as_array().cloned().unwrap_or_default();
    let Some(t) = T::from_st(&from_cps(&ops[0][1])) else { return Value::Null };
    let name = from_cps(&ops[0][2]);
    let r = catch_unwind(AssertUnwindSafe(|| -> Result<GenericPurl<T>, <T as PurlShape>::Error> {
        let mut b = GenericPurlBuilder::new(t, name);
        for op in &ops[1..] {
            b = apply_op(b, op)?;
        }
        b.build()
    }));
    let (obs, p) = match r {
        Err(_) => (json!({"panic": true}), None),
        Ok(Err(e)) => (json!({"ok": false, "err": e.err_name()}), None),
        Ok(Ok(p)) => (outcome::<T, <T as PurlShape>::Error>(Ok(Ok(p.clone()))), Some(p)),
    };
    let exp = &case["out"];
    ctx.check("C06", "no panic", inst, obs.get("panic").is_none() && obs["str"].get("panic").is_none(), &json!("value or error"), &obs);
    if exp["ok"] == json!(true) {
        ctx.check("C09", "call sequence builds what was last set", inst, &obs == exp, exp, &obs);
    } else {
        ctx.check("C09", "call sequence is refused", inst, obs["ok"] == json!(false), exp, &obs);
    }
    if let Some(p) = &p {
        universal_noparse(ctx, inst, p, &obs, &[&exp["v"]], "build");
    }
    obs
}

pub fn run_bseq(ctx: &mut Ctx, case: &Value) {
    if case["sh"] == json!("generic") {
        let g = bseq_inst::<String>(ctx, "String", case);
        parse_back::<String>(ctx, "String", &g, case);
        let o = bseq_inst::<std::borrow::Cow<'static, str>>(ctx, "CowOwned", case);
        ctx.check_eq("C13", "String and Cow build alike", "CowOwned", &g, &o);
        #[cfg(feature = "ss")]
        {
            let o = bseq_inst::<purl::SmallString>(ctx, "SmallString", case);
            ctx.check_eq("C13", "String and SmallString build alike", "SmallString", &g, &o);
        }
    } else {
        #[cfg(feature = "pt")]
        {
            let o = bseq_inst::<purl::PackageType>(ctx, "Purl", case);
            parse_back::<purl::PackageType>(ctx, "Purl", &o, case);
        }
    }
    if ctx.samples.len() < 2 {
        ctx.samples.push(json!({"kind": "builder call sequence", "case": case}));
    }
}

// --------------------------------------------------------------------------- Qualifiers transitions and sequences

fn opt_json(o: Option<&str>) -> Value {
    match o {
        Some(v) => json!({"some": true, "v": cps(v)}),
        None => json!({"some": false}),
    }
}

fn qerr() -> Value {
    json!({"ok": false, "err": "InvalidQualifier"})
}

fn pairs_of(v: &Value) -> Vec<(String, String)> {
    v.as_array().map(|a| a.iter().map(|q| (from_cps(&q[0]), from_cps(&q[1]))).collect()).unwrap_or_default()
}

/// A caller's own typed qualifier whose declared key is valid but not lower-case.
pub struct BuildTag(pub String);
impl purl::qualifiers::well_known::KnownQualifierKey for BuildTag {
    const KEY: &'static str = "Build_Tag";
}
impl From<BuildTag> for SmallStr {
    fn from(v: BuildTag) -> Self {
        v.0.into()
    }
}
impl<'a> From<&'a str> for BuildTag {
    fn from(v: &'a str) -> Self {
        BuildTag(v.to_owned())
    }
}
impl std::ops::Deref for BuildTag {
    type Target = str;
    fn deref(&self) -> &str {
        &self.0
    }
}

/// A typed qualifier whose declared key is invalid: inserting it is the documented panic.
pub struct BadKey(pub String);
impl purl::qualifiers::well_known::KnownQualifierKey for BadKey {
    const KEY: &'static str = "!";
}
impl From<BadKey> for SmallStr {
    fn from(v: BadKey) -> Self {
        v.0.into()
    }
}

/// Result of a retain call: the number of predicate calls, provided they came in strictly ascending key order.
fn visited(seen: Vec<String>) -> Value {
    if seen.windows(2).all(|w| w[0] < w[1]) {
        json!({"calls": seen.len()})
    } else {
        json!({"calls": seen.len(), "visited_out_of_order": seen})
    }
}

/// One public call on a live collection; returns the spec-shaped result.
pub fn apply_qop(q: &mut purl::Qualifiers, op: &Value) -> Value {
    use purl::qualifiers::well_known::{Checksum, RepositoryUrl};
    use purl::qualifiers::Entry;
    let name = op[0].as_str().unwrap_or("");
    let nested = matches!(name, "try_insert_typed_checksum" | "try_from_iter" | "insert_typed" | "remove_typed" | "get_typed");
    let k = if nested { String::new() } else { from_cps(&op[1]) };
    let v = from_cps(&op[2]);
    match name {
        "insert" => match q.insert(k, v) {
            Ok(r) => json!({"ok": true, "v": cps(r)}),
            Err(_) => qerr(),
        },
        "get" => opt_json(q.get(&k)),
        "contains_key" => json!({"b": q.contains_key(&k)}),
        "remove" => opt_json(q.remove(&k).as_deref()),
        "get_mut_set" => match q.get_mut(&k) {
            Some(r) => {
                *r = v.into();
                json!({"found": true})
            },
            None => json!({"found": false}),
        },
        "index" => json!({"ok": true, "v": cps(&q[k.as_str()])}),
        "index_mut_set" => {
            q[k.as_str()] = v.into();
            json!({"ok": true})
        },
        "entry_classify" => match q.entry(k.as_str()) {
            Err(_) => qerr(),
            Ok(Entry::Occupied(mut o)) => {
                let a = o.get().to_owned();
                let b = o.get_mut().to_string();
                let c = o.into_mut().to_string();
                if a == b && b == c {
                    json!({"ok": true, "occ": true, "v": cps(&a)})
                } else {
                    json!({"ok": true, "occ": true, "disagree": "get/get_mut/into_mut"})
                }
            },
            Ok(Entry::Vacant(_)) => json!({"ok": true, "occ": false}),
        },
        "entry_or_insert" => match q.entry(k) {
            Err(_) => qerr(),
            Ok(e) => json!({"ok": true, "v": cps(e.or_insert(v))}),
        },
        "entry_or_insert_with" => {
            let mut calls = 0;
            match q.entry(k) {
                Err(_) => qerr(),
                Ok(e) => {
                    let r = e.or_insert_with(|| {
                        calls += 1;
                        v
                    });
                    json!({"ok": true, "v": cps(r), "calls": calls})
                },
            }
        },
        "entry_and_modify_or_insert" => {
            let mut calls = 0;
            let v2 = from_cps(&op[3]);
            match q.entry(k) {
                Err(_) => qerr(),
                Ok(e) => {
                    let r = e
                        .and_modify(|x| {
                            calls += 1;
                            *x = v.as_str().into();
                        })
                        .or_insert(v2);
                    json!({"ok": true, "v": cps(r), "calls": calls})
                },
            }
        },
        "occ_insert" => match q.entry(k) {
            Ok(Entry::Occupied(mut o)) => {
                let old = o.insert(v);
                json!({"occ": true, "old": cps(&old)})
            },
            _ => json!({"occ": false}),
        },
        "occ_remove" => match q.entry(k) {
            Ok(Entry::Occupied(o)) => json!({"occ": true, "old": cps(&o.remove())}),
            _ => json!({"occ": false}),
        },
        "occ_remove_entry" => match q.entry(k) {
            Ok(Entry::Occupied(o)) => {
                let (key, old) = o.remove_entry();
                json!({"occ": true, "key": cps(&key), "old": cps(&old)})
            },
            _ => json!({"occ": false}),
        },
        "vac_insert" => match q.entry(k) {
            Ok(Entry::Vacant(e)) => json!({"vac": true, "v": cps(e.insert(v))}),
            _ => json!({"vac": false}),
        },
        // a reference map visits its entries in ascending key order: a predicate with state (a counter, a set of
        // values seen) depends on it, so the order of the calls is part of the result
        "retain_nonempty" => {
            let mut seen: Vec<String> = Vec::new();
            q.retain(|key, v| {
                seen.push(key.as_str().to_owned());
                !v.is_empty()
            });
            visited(seen)
        },
        "retain_key_ne" => {
            let mut seen: Vec<String> = Vec::new();
            q.retain(|key, _| {
                seen.push(key.as_str().to_owned());
                key != k.as_str()
            });
            visited(seen)
        },
        "count_keys_lt" => {
            let n = q.iter().filter(|(key, _)| **key < *k.as_str()).count();
            let le = q.iter().filter(|(key, _)| **key <= *k.as_str()).count();
            let eq = q.iter().filter(|(key, _)| **key == *k.as_str()).count();
            if le != n + eq {
                json!({"disagree": "QualifierKey <, <=, =="})
            } else {
                json!({"n": n})
            }
        },
        "retain_mut_set" => {
            let mut seen: Vec<String> = Vec::new();
            q.retain_mut(|key, v| {
                seen.push(key.as_str().to_owned());
                *v = k.as_str().into();
                true
            });
            visited(seen)
        },
        "iter_mut_set" => {
            // IterMut from both ends alternately (and once through IntoIterator for &mut), with exact size hints
            let n = q.len();
            let mut calls = 0;
            let mut hints_ok = true;
            {
                let mut it = q.iter_mut();
                hints_ok &= it.len() == n;
                let mut front = true;
                loop {
                    let item = if front { it.next() } else { it.next_back() };
                    let Some((_, v)) = item else { break };
                    calls += 1;
                    *v = k.as_str().into();
                    front = !front;
                    hints_ok &= it.size_hint() == (n - calls, Some(n - calls));
                }
            }
            let mut again = 0;
            for (_, v) in &mut *q {
                again += 1;
                *v = k.as_str().into();
            }
            if !hints_ok || again != calls {
                json!({"disagree": "IterMut size hints / IntoIterator for &mut"})
            } else {
                json!({"calls": calls})
            }
        },
        "clear" => {
            q.clear();
            json!({"unit": true})
        },
        "reserve" => {
            q.reserve(3);
            q.reserve_exact(1);
            let _ = q.capacity();
            json!({"unit": true})
        },
        "insert_typed_repo" => {
            q.insert_typed(RepositoryUrl::from(k.as_str()));
            json!({"unit": true})
        },
        "remove_typed_repo" => {
            q.remove_typed::<RepositoryUrl>();
            json!({"unit": true})
        },
        "get_typed_repo" => {
            let r = q.get_typed::<RepositoryUrl>();
            let c = q.contains_typed::<RepositoryUrl>();
            if c != r.is_some() {
                json!({"disagree": "contains_typed and get_typed"})
            } else {
                opt_json(r.as_deref())
            }
        },
        "insert_typed" | "remove_typed" | "get_typed" => {
            use purl::qualifiers::well_known::{gem, maven, DownloadUrl, FileName, VcsUrl};
            macro_rules! typed {
                ($t:ty) => {
                    match name {
                        "insert_typed" => {
                            q.insert_typed(<$t>::from(v.as_str()));
                            json!({"unit": true})
                        },
                        "remove_typed" => {
                            q.remove_typed::<$t>();
                            json!({"unit": true})
                        },
                        _ => {
                            let r = q.get_typed::<$t>();
                            if q.contains_typed::<$t>() != r.is_some() {
                                json!({"disagree": "contains_typed and get_typed"})
                            } else {
                                opt_json(r.as_deref())
                            }
                        },
                    }
                };
            }
            match op[1].as_str().unwrap_or("") {
                "RepositoryUrl" => typed!(RepositoryUrl),
                "DownloadUrl" => typed!(DownloadUrl),
                "VcsUrl" => typed!(VcsUrl),
                "FileName" => typed!(FileName),
                "gem::Platform" => typed!(gem::Platform),
                "maven::Classifier" => typed!(maven::Classifier),
                "maven::Type" => typed!(maven::Type),
                "user::BuildTag" => typed!(BuildTag),
                other => {
                    eprintln!("unknown typed qualifier {:?}", other);
                    std::process::exit(2);
                },
            }
        },
        "insert_typed_badkey" => {
            q.insert_typed(BadKey(k));
            json!({"unit": true})
        },
        "try_get_typed_checksum" => match q.try_get_typed::<Checksum>() {
            Err(_) => qerr(),
            Ok(None) => json!({"ok": true, "some": false}),
            Ok(Some(ck)) => {
                let mut es: Vec<(String, String)> = ck.iter().map(|(a, h)| (a.to_owned(), h.raw().to_owned())).collect();
                es.sort();
                json!({"ok": true, "some": true, "entries": es.iter().map(|(a, h)| json!([cps(a), cps(h)])).collect::<Vec<_>>()})
            },
        },
        "try_insert_typed_checksum" => {
            let mut ck = Checksum::default();
            for (a, h) in pairs_of(&op[1]) {
                ck.insert_raw(&a, h);
            }
            match q.try_insert_typed(ck) {
                Ok(()) => json!({"ok": true}),
                Err(_) => qerr(),
            }
        },
        "try_from_iter" => {
            // the same pairs through iterators of every honest shape: exact size hint, a lower bound of 0
            // with a tight, an absent and an enormous upper bound, and borrowed instead of owned strings
            let pairs = pairs_of(&op[1]);
            let borrowed: Vec<(&str, &str)> = pairs.iter().map(|(k, v)| (k.as_str(), v.as_str())).collect();
            let forms = [
                purl::Qualifiers::try_from_iter(pairs.clone()),
                purl::Qualifiers::try_from_iter(pairs.clone().into_iter().filter(|_| true)),
                purl::Qualifiers::try_from_iter(LooseHint(pairs.clone().into_iter(), None)),
                purl::Qualifiers::try_from_iter(LooseHint(pairs.clone().into_iter(), Some(usize::MAX))),
                purl::Qualifiers::try_from_iter(borrowed),
            ];
            let shown: Vec<Value> = forms.iter().map(|f| f.as_ref().map(quals_json).unwrap_or_else(|_| qerr())).collect();
            if shown.iter().any(|x| x != &shown[0]) {
                return json!({"iterator_shapes_disagree": shown});
            }
            let [first, ..] = forms;
            match first {
                Ok(n) => {
                    *q = n;
                    json!({"ok": true})
                },
                Err(_) => qerr(),
            }
        },
        other => {
            eprintln!("unknown qualifier op {:?}", other);
            std::process::exit(2);
        },
    }
}

/// An iterator that promises nothing about its length beyond what `Iterator` requires.
struct LooseHint<I>(I, Option<usize>);
impl<I: Iterator> Iterator for LooseHint<I> {
    type Item = I::Item;
    fn next(&mut self) -> Option<I::Item> {
        self.0.next()
    }
    fn size_hint(&self) -> (usize, Option<usize>) {
        (0, self.1)
    }
}

/// Collection with the given content, built in reverse order with upper-cased keys: the
/// content must not depend on insertion order or key case.
fn quals_permuted(v: &Value) -> purl::Qualifiers {
    let mut pairs = pairs_of(v);
    pairs.reverse();
    let pairs: Vec<(String, String)> = pairs.into_iter().map(|(k, v)| (k.to_ascii_uppercase(), v)).collect();
    purl::Qualifiers::try_from_iter(pairs).expect("valid distinct keys")
}

fn qop_step(ctx: &mut Ctx, q: &mut purl::Qualifiers, op: &Value, exp_res: &Value, exp_post: &Value) {
    let r = catch_unwind(AssertUnwindSafe(|| apply_qop(q, op)));
    let res = match r {
        Ok(v) => v,
        Err(_) => json!({"panic": true}),
    };
    let documented = exp_res.get("panic").is_some();
    if res.get("panic").is_some() || documented {
        ctx.check("C06", "panics exactly where documented (Index/IndexMut on an absent key, typed insert with an invalid KEY)", "Qualifiers",
                  res.get("panic").is_some() == documented, exp_res, &res);
    }
    if !(documented && res.get("panic").is_some()) {
        ctx.check("C11", "returned value is what the reference map gives", "Qualifiers", &res == exp_res, exp_res, &res);
    }
    let post = quals_json(q);
    ctx.check("C11", "content after the call is what the reference map gives", "Qualifiers", &post == exp_post, exp_post, &post);
    if &post != exp_post {
        // a content TLC has not seen: its structural invariant (strictly ascending valid lower-case keys) is judged by TLC
        ctx.event(json!({"ev": "qvec", "post": post, "op": op}));
    }
    if op[0] == json!("try_insert_typed_checksum") || op[0] == json!("try_get_typed_checksum") {
        ctx.check("C12", "typed checksum accessors of the collection", "Qualifiers", &res == exp_res && &post == exp_post, exp_res, &res);
    }
    let ex = quals_extras(q);
    let all = ex.as_object().map(|m| m.values().all(|b| b == &Value::Bool(true))).unwrap_or(false);
    ctx.check("C11", "iteration from both ends, len and lookups agree", "Qualifiers", all, &Value::Null, &ex);
}

pub fn run_qop(ctx: &mut Ctx, case: &Value) {
    let built = catch_unwind(AssertUnwindSafe(|| quals_permuted(&case["pre"])));
    let Ok(mut q) = built else {
        ctx.check("C11", "construction from pairs in another order and key case", "Qualifiers", false, &case["pre"], &json!({"panic": true}));
        return;
    };
    let pre = quals_json(&q);
    if !ctx.check("C11", "construction from pairs in another order and key case gives the same content", "Qualifiers", pre == case["pre"], &case["pre"], &pre) {
        return;
    }
    // equal content => equal, hash alike, compare Equal (derived over the sorted Vec)
    let direct = quals_from(&case["pre"]);
    ctx.check("C11", "same content: ==, hash, cmp agree", "Qualifiers",
              direct == q && hash_of(&direct) == hash_of(&q) && direct.cmp(&q) == std::cmp::Ordering::Equal, &Value::Null, &Value::Null);
    qop_step(ctx, &mut q, &case["op"], &case["res"], &case["post"]);
    if ctx.samples.len() < 2 && case["pre"].as_array().map(|a| a.len() >= 2).unwrap_or(false) && case["pre"] != case["post"] {
        ctx.samples.push(json!({"kind": "qualifier transition", "case": case}));
    }
}

pub fn run_qseq(ctx: &mut Ctx, case: &Value) {
    let mut q = purl::Qualifiers::default();
    if let Some(steps) = case["steps"].as_array() {
        for st in steps {
            qop_step(ctx, &mut q, &st["op"], &st["res"], &st["post"]);
        }
    }
    if ctx.samples.len() < 2 {
        ctx.samples.push(json!({"kind": "qualifier call sequence", "case": case}));
    }
}

// --------------------------------------------------------------------------- package types, combined names

#[cfg(feature = "pt")]
pub fn run_tlookup(ctx: &mut Ctx, case: &Value) {
    use purl::PackageType;
    let s = from_cps(&case["s"]);
    let r = catch_unwind(AssertUnwindSafe(|| <PackageType as FromStr>::from_str(&s)));
    let exp = &case["exp"];
    let obs = match &r {
        Err(_) => json!({"panic": true}),
        Ok(Err(_)) => json!({"some": false}),
        Ok(Ok(t)) => json!({"some": true, "v": cps(t.name())}),
    };
    ctx.check("C06", "no panic", "PackageType", obs.get("panic").is_none(), &Value::Null, &obs);
    ctx.check("C15", "from_str accepts exactly the names, case-insensitively", "PackageType", &obs == exp, exp, &obs);
    if let Ok(Ok(t)) = r {
        let name = t.name();
        let views = json!({
            "display": t.to_string() == name,
            "as_ref": AsRef::<str>::as_ref(&t) == name,
            "into_str": <&'static str>::from(t) == name,
            "package_type": t.package_type() == name,
            "lower": name == name.to_ascii_lowercase(),
            "reparse": <PackageType as FromStr>::from_str(name).ok() == Some(t),
            "upper_reparse": <PackageType as FromStr>::from_str(&name.to_ascii_uppercase()).ok() == Some(t),
        });
        let all = views.as_object().map(|m| m.values().all(|b| b == &Value::Bool(true))).unwrap_or(false);
        ctx.check("C15", "name(), Display, AsRef, From, package_type() agree on one lower-case name", "PackageType", all, &Value::Null, &views);
        #[cfg(feature = "sd")]
        {
            let js = serde_json::to_string(&t).unwrap_or_default();
            let want = format!("\"{}\"", name);
            let back = serde_json::from_str::<PackageType>(&want).ok();
            ctx.check("C15", "serde form is the name", "PackageType", js == want && back == Some(t), &json!(want), &json!(js));
        }
    }
    if ctx.samples.len() < 2 {
        ctx.samples.push(json!({"kind": "type lookup", "input": s, "observed": obs}));
    }
}

#[cfg(feature = "pt")]
pub fn run_comb(ctx: &mut Ctx, case: &Value) {
    use purl::{PackageType, Purl};
    let Ok(t) = <PackageType as FromStr>::from_str(&from_cps(&case["t"])) else {
        eprintln!("comb: unknown type");
        std::process::exit(2);
    };
    let s = from_cps(&case["s"]);
    let r = catch_unwind(AssertUnwindSafe(|| Purl::builder_with_combined_name(t, &s)));
    let Ok(b) = r else {
        ctx.check("C06", "no panic", "Purl", false, &Value::Null, &json!({"panic": true}));
        return;
    };
    let split = json!({"ns": cps(&b.parts.namespace), "name": cps(&b.parts.name)});
    ctx.check("C18", "combined name split at the ecosystem separator", "Purl", split == case["split"], &case["split"], &split);
    let untouched = b.parts.version.is_empty() && b.parts.subpath.is_empty() && b.parts.qualifiers.is_empty() && b.package_type == t;
    ctx.check("C18", "constructor sets nothing else", "Purl", untouched, &Value::Null, &Value::Null);
    let o = outcome::<PackageType, purl::PackageError>(catch_unwind(AssertUnwindSafe(|| b.clone().build())));
    ctx.check("C06", "no panic", "Purl", o.get("panic").is_none(), &Value::Null, &o);
    let exp = &case["out"];
    if exp["ok"] == json!(true) {
        ctx.check("C18", "built value", "Purl", &o == exp, exp, &o);
    } else {
        ctx.check("C18", "build refused", "Purl", o["ok"] == json!(false), exp, &o);
    }
    if let Ok(p) = b.build() {
        let joined = catch_unwind(AssertUnwindSafe(|| p.combined_name().into_owned()));
        match joined {
            Err(_) => {
                ctx.check("C06", "no panic", "Purl", false, &Value::Null, &json!({"panic": true}));
            },
            Ok(j) => {
                ctx.check("C18", "combined_name joins with the ecosystem separator", "Purl", cps(&j) == case["joined"], &case["joined"], &cps(&j));
                if case["invertible"] == json!(true) {
                    let b2 = Purl::builder_with_combined_name(t, &j);
                    let same = &*b2.parts.namespace == p.namespace().unwrap_or("") && &*b2.parts.name == p.name();
                    ctx.check("C18", "constructor inverts combined_name()", "Purl", same, &o["v"], &json!({"ns": cps(&b2.parts.namespace), "name": cps(&b2.parts.name)}));
                }
                let o2 = outcome::<PackageType, purl::PackageError>(Ok(Ok(p.clone())));
                universal(ctx, "Purl", &p, &o2, &[&exp["v"]], "build");
            },
        }
    }
    if ctx.samples.len() < 2 {
        ctx.samples.push(json!({"kind": "combined name", "type": case["t"], "input": s, "split": split}));
    }
}

// --------------------------------------------------------------------------- typed checksum value

fn ck_entries(ck: &purl::qualifiers::well_known::Checksum) -> Value {
    let mut es: Vec<(String, String)> = ck.iter().map(|(a, h)| (a.to_owned(), h.raw().to_owned())).collect();
    es.sort();
    let mut names: Vec<String> = ck.algorithms().map(|a| a.to_owned()).collect();
    names.sort();
    let same = names == es.iter().map(|(a, _)| a.clone()).collect::<Vec<_>>();
    if !same {
        return json!([[[], {"disagree": "iter() and algorithms()"}]]);
    }
    Value::Array(es.iter().map(|(a, h)| json!([cps(a), cps(h)])).collect())
}

pub fn apply_ckop(ck: &mut purl::qualifiers::well_known::Checksum<'static>, op: &Value) -> Value {
    use purl::qualifiers::well_known::Checksum;
    let name = op[0].as_str().unwrap_or("");
    let a = from_cps(&op[1]);
    match name {
        "insert_raw" => {
            ck.insert_raw(&a, from_cps(&op[2]));
            json!({"unit": true})
        },
        "insert_bytes" => {
            let bytes: Vec<u8> = op[2].as_array().map(|x| x.iter().map(|b| b.as_u64().unwrap_or(0) as u8).collect()).unwrap_or_default();
            ck.insert(&a, bytes);
            json!({"unit": true})
        },
        "remove" => {
            ck.remove(&a);
            json!({"unit": true})
        },
        "get_raw" => {
            let r = ck.get_raw(&a);
            let v = ck.get_value(&a).map(|v| v.raw().to_owned());
            if r.map(|x| x.to_owned()) != v {
                json!({"disagree": "get_raw and get_value"})
            } else {
                opt_json(r)
            }
        },
        "get_bytes" => match ck.get::<Vec<u8>>(&a) {
            Err(_) => json!({"ok": false, "err": "FromHexError"}),
            Ok(None) => json!({"ok": true, "some": false}),
            Ok(Some(b)) => json!({"ok": true, "some": true, "bytes": b}),
        },
        "entries" => json!({"entries": ck_entries(ck)}),
        "to_text" => match SmallStr::try_from(ck.clone()) {
            Ok(s) => json!({"ok": true, "s": cps(&s)}),
            Err(e) => json!({"ok": false, "err": e.err_name()}),
        },
        "from_text" => {
            // Checksum<'a> borrows the text: leak it (test process, bounded number of cases)
            let text: &'static str = Box::leak(a.into_boxed_str());
            match Checksum::try_from(text) {
                Ok(n) => {
                    *ck = n;
                    json!({"ok": true})
                },
                Err(e) => json!({"ok": false, "err": e.err_name()}),
            }
        },
        other => {
            eprintln!("unknown checksum op {:?}", other);
            std::process::exit(2);
        },
    }
}

pub fn run_ckop(ctx: &mut Ctx, case: &Value) {
    use purl::qualifiers::well_known::Checksum;
    let mut ck = Checksum::default();
    let mut pre = pairs_of(&case["pre"]);
    pre.reverse();
    for (a, h) in pre {
        ck.insert_raw(&a, h);
    }
    let before = ck_entries(&ck);
    if !ctx.check("C12", "map built by raw inserts holds the given entries", "Checksum", before == case["pre"], &case["pre"], &before) {
        return;
    }
    let r = catch_unwind(AssertUnwindSafe(|| apply_ckop(&mut ck, &case["op"])));
    let res = match r {
        Ok(v) => v,
        Err(_) => json!({"panic": true}),
    };
    ctx.check("C06", "no panic", "Checksum", res.get("panic").is_none(), &case["res"], &res);
    ctx.check("C12", "result of the call", "Checksum", res == case["res"], &case["res"], &res);
    let post = ck_entries(&ck);
    ctx.check("C12", "entries after the call", "Checksum", post == case["post"], &case["post"], &post);
    if ctx.samples.len() < 2 {
        ctx.samples.push(json!({"kind": "checksum transition", "case": case}));
    }
}

// --------------------------------------------------------------------------- user-supplied shapes (C14)

pub fn run_shape(ctx: &mut Ctx, case: &Value) {
    use crate::shapes::{self, TestErr, TestShape};
    let shp = &case["shape"];
    shapes::set_params(shapes::Params {
        conv: shp["conv"] == json!(true),
        fin: shp["fin"] == json!(true),
        edits: shp["edits"].as_array().cloned().unwrap_or_default(),
    });
    let _ = shapes::take_log();
    let input = &case["input"];
    let parse = input["entry"] == json!("parse");
    let shape_json = json!({"conv": shp["conv"], "fin": shp["fin"], "edits": shp["edits"]});
    let r = if parse {
        let s = from_cps(&input["s"]);
        shapes::log(json!({"ev": "begin", "entry": "parse", "s": input["s"], "shape": shape_json}));
        catch_unwind(AssertUnwindSafe(|| GenericPurl::<TestShape>::from_str(&s)))
    } else if input["entry"] == json!("new") {
        // GenericPurl::new is a build() from a fresh builder: the hook and the generic checks run all the same
        shapes::log(json!({"ev": "begin", "entry": "build", "st": input["st"], "parts": input["parts"], "shape": shape_json}));
        let t = TestShape { ty: from_cps(&input["st"]) };
        let name = from_cps(&input["parts"]["name"]);
        catch_unwind(AssertUnwindSafe(|| GenericPurl::<TestShape>::new(t, name)))
    } else {
        shapes::log(json!({"ev": "begin", "entry": "build", "st": input["st"], "parts": input["parts"], "shape": shape_json}));
        let t = TestShape { ty: from_cps(&input["st"]) };
        catch_unwind(AssertUnwindSafe(|| -> Result<GenericPurl<TestShape>, TestErr> {
            let b = builder_in_state(t, &input["parts"]);
            b.build()
        }))
    };
    let p = match &r {
        Ok(Ok(p)) => Some(p.clone()),
        _ => None,
    };
    let obs = outcome::<TestShape, TestErr>(r);
    shapes::log(json!({"ev": "end", "out": obs}));
    let calls = shapes::take_log();
    let nconv = calls.iter().filter(|e| e["ev"] == json!("conv")).count();
    let nfin = calls.iter().filter(|e| e["ev"] == json!("finish")).count();
    // the specification gives the SET of admitted outcomes (one element unless the input has several
    // independent defects) and the admitted numbers of callbacks
    let outs = case["outs"].as_array().cloned().unwrap_or_default();
    let exp = &case["outs"];
    let admitted = outs.iter().any(|o| o == &obs);
    // the only panic the model allows here is Display with an invalid type string
    let display_panic = obs["str"].get("panic").is_some();
    let display_panic_admitted = outs.iter().any(|o| o["v"] == obs["v"] && o["str"].get("panic").is_some());
    ctx.check("C06", "panics only where documented (Display with an invalid user type string)", "TestShape",
              obs.get("panic").is_none() && (!display_panic || display_panic_admitted), exp, &obs);
    ctx.check("C14", "outcome with a user-supplied shape (errors returned unchanged, hook's parts reported, generic checks after)", "TestShape",
              admitted, exp, &obs);
    let among = |xs: &Value, n: usize| xs.as_array().map(|a| a.iter().any(|x| x == &json!(n))).unwrap_or(false);
    ctx.check("C14", "conversion called as often as the protocol allows", "TestShape", among(&case["nconv"], nconv), &case["nconv"], &json!(nconv));
    ctx.check("C14", "finish hook called as often as the protocol allows", "TestShape", among(&case["nfin"], nfin), &case["nfin"], &json!(nfin));
    if let Some(p) = &p {
        if !display_panic {
            let known: Vec<&Value> = outs.iter().filter(|o| o["ok"] == json!(true)).map(|o| &o["v"]).collect();
            universal_noparse(ctx, "TestShape", p, &obs, &known, "shape");
        }
        let ex = quals_extras(p.qualifiers());
        let all = ex.as_object().map(|m| m.values().all(|b| b == &Value::Bool(true))).unwrap_or(false);
        ctx.check("C04", "qualifiers retrievable by key (user shape)", "TestShape", all, &Value::Null, &ex);
    }
    // the recorded calls are the trace: one event per line, validated by Trace_Shapes.tla
    for ev in calls {
        ctx.event(ev);
    }
    if ctx.samples.len() < 2 {
        ctx.samples.push(json!({"kind": "user shape session", "input": input, "shape": shape_json, "observed": obs, "conversions": nconv, "hooks": nfin}));
    }
}

// --------------------------------------------------------------------------- pairs of values (C19)

fn value_to_purl<T>(t: T, v: &Value) -> Option<GenericPurl<T>>
where
    T: PurlShape,
    <T as PurlShape>::Error: From<purl::ParseError>,
{
    make_builder(t, v).ok().and_then(|b| b.build().ok())
}

fn pair_inst<T>(ctx: &mut Ctx, inst: &str, ta: T, tb: T, case: &Value)
where
    T: PurlShape + Clone + PartialEq + Eq + Hash + Ord,
    <T as PurlShape>::Error: From<purl::ParseError>,
{
    use std::cmp::Ordering;
    let (Some(a), Some(b)) = (value_to_purl(ta, &case["a"]), value_to_purl(tb, &case["b"])) else {
        ctx.check("C19", "values of the universe can be built", inst, false, &Value::Null, &Value::Null);
        return;
    };
    let (Some(sa), Some(sb)) = (display(&a), display(&b)) else { return };
    let eq = a == b;
    let obs = json!({"eq": eq, "str_eq": sa == sb, "hash_eq": hash_of(&a) == hash_of(&b),
                     "cmp_ab": format!("{:?}", a.cmp(&b)), "cmp_ba": format!("{:?}", b.cmp(&a)), "sa": sa, "sb": sb});
    ctx.check("C19", "equal exactly when the specification's values are equal", inst, json!(eq) == case["eq"], &case["eq"], &obs);
    ctx.check("C19", "equal exactly when the canonical strings are equal", inst, eq == (sa == sb), &case["eq"], &obs);
    ctx.check("C19", "equal values hash alike", inst, !eq || hash_of(&a) == hash_of(&b), &Value::Null, &obs);
    ctx.check("C19", "cmp is Equal exactly on equal values", inst, (a.cmp(&b) == Ordering::Equal) == eq, &Value::Null, &obs);
    ctx.check("C19", "cmp is antisymmetric", inst, a.cmp(&b) == b.cmp(&a).reverse(), &Value::Null, &obs);
    ctx.check("C19", "partial_cmp agrees with cmp", inst, a.partial_cmp(&b) == Some(a.cmp(&b)), &Value::Null, &obs);
    let (qa, qb) = (a.qualifiers(), b.qualifiers());
    let qeq = qa == qb;
    ctx.check("C19", "Qualifiers: ==, hash, cmp agree", inst,
              (!qeq || hash_of(qa) == hash_of(qb)) && ((qa.cmp(qb) == Ordering::Equal) == qeq) && qa.cmp(qb) == qb.cmp(qa).reverse(),
              &Value::Null, &obs);
}

pub fn run_pair(ctx: &mut Ctx, case: &Value) {
    let ta = from_cps(&case["a"]["type"]);
    let tb = from_cps(&case["b"]["type"]);
    pair_inst::<String>(ctx, "String", ta.clone(), tb.clone(), case);
    pair_inst::<std::borrow::Cow<str>>(ctx, "Cow", std::borrow::Cow::Borrowed(&ta), std::borrow::Cow::Owned(tb.clone()), case);
    #[cfg(feature = "ss")]
    pair_inst::<purl::SmallString>(ctx, "SmallString", ta.as_str().into(), tb.as_str().into(), case);
    // transitivity: keep the distinct values and check a sorted pool at the end
    if case["a"] == case["b"] && !ctx.pool.contains(&case["a"]) {
        ctx.pool.push(case["a"].clone());
    }
    if ctx.samples.len() < 2 {
        ctx.samples.push(json!({"kind": "pair of values", "case": case}));
    }
}

/// After all pairs: sort the pool with Ord and require the result to be pairwise consistent
/// (for a total antisymmetric relation this is transitivity on the pool).
pub fn finish_pool(ctx: &mut Ctx) {
    use std::cmp::Ordering;
    let pool = std::mem::take(&mut ctx.pool);
    let vals: Vec<GenericPurl<String>> =
        pool.iter().filter_map(|v| value_to_purl(from_cps(&v["type"]), v)).collect();
    check_pool(ctx, vals);
}

/// Sort a pool with `Ord` (by insertion, so that an inconsistent `Ord` cannot make the sort itself misbehave) and
/// require the result to be pairwise consistent; de-duplication by ordered set, hash set and string must agree.
pub fn check_pool(ctx: &mut Ctx, pool: Vec<GenericPurl<String>>) {
    use std::cmp::Ordering;
    if pool.len() < 2 {
        return;
    }
    let mut vals: Vec<GenericPurl<String>> = Vec::with_capacity(pool.len());
    for p in pool {
        let mut i = vals.len();
        while i > 0 && vals[i - 1].cmp(&p) == Ordering::Greater {
            i -= 1;
        }
        vals.insert(i, p);
    }
    let mut bad: Option<(String, String)> = None;
    'outer: for i in 0..vals.len() {
        for j in i + 1..vals.len() {
            if vals[i].cmp(&vals[j]) == Ordering::Greater {
                bad = Some((vals[i].to_string(), vals[j].to_string()));
                break 'outer;
            }
        }
    }
    ctx.case = json!({"k": "pool", "size": vals.len()});
    ctx.check("C19", "sorted pool is pairwise consistent (transitivity)", "String", bad.is_none(), &Value::Null, &json!(bad));
    let strs: std::collections::HashSet<String> = vals.iter().map(|p| p.to_string()).collect();
    let hset: std::collections::HashSet<_> = vals.iter().cloned().collect();
    // distinct neighbours after sorting = what an ordered set would keep
    let distinct = 1 + vals.windows(2).filter(|w| w[0].cmp(&w[1]) != Ordering::Equal).count();
    ctx.check("C19", "de-duplication by order, HashSet and string agree", "String",
              distinct == hset.len() && distinct == strs.len(), &json!(strs.len()), &json!([distinct, hset.len()]));
}

/// C16: values that are not strings are refused.
#[cfg(feature = "sd")]
pub fn run_serde_ns(ctx: &mut Ctx, case: &Value) {
    if !ctx.serde {
        return;
    }
    // values of other kinds handed to Deserialize directly (bytes that spell a valid PURL, numbers, bool, unit, a sequence)
    {
        use serde::de::value::{BoolDeserializer, BorrowedBytesDeserializer, BytesDeserializer, Error as DeErr, SeqDeserializer, U64Deserializer, UnitDeserializer};
        use serde::Deserialize;
        let bytes = b"pkg:cargo/serde@1.0.0";
        let refused = [
            GenericPurl::<String>::deserialize(BytesDeserializer::<DeErr>::new(bytes)).is_err(),
            GenericPurl::<String>::deserialize(BorrowedBytesDeserializer::<DeErr>::new(bytes)).is_err(),
            GenericPurl::<String>::deserialize(U64Deserializer::<DeErr>::new(7)).is_err(),
            GenericPurl::<String>::deserialize(BoolDeserializer::<DeErr>::new(true)).is_err(),
            GenericPurl::<String>::deserialize(UnitDeserializer::<DeErr>::new()).is_err(),
            GenericPurl::<String>::deserialize(SeqDeserializer::<_, DeErr>::new(vec!["pkg:cargo/serde".to_owned()].into_iter())).is_err(),
        ];
        ctx.check("C16", "bytes, numbers, booleans, unit and sequences are refused by Deserialize", "String", refused.iter().all(|b| *b), &json!([true, true, true, true, true, true]), &json!(refused));
        let ok = GenericPurl::<String>::deserialize(serde::de::value::StrDeserializer::<DeErr>::new("pkg:cargo/serde@1.0.0")).is_ok()
            && GenericPurl::<String>::deserialize(serde::de::value::StringDeserializer::<DeErr>::new("pkg:cargo/serde@1.0.0".to_owned())).is_ok()
            && GenericPurl::<String>::deserialize(serde::de::value::BorrowedStrDeserializer::<DeErr>::new("pkg:cargo/serde@1.0.0")).is_ok();
        ctx.check("C16", "transient, owned and borrowed string values are accepted by Deserialize", "String", ok, &json!(true), &json!(ok));
    }
    for t in case["texts"].as_array().cloned().unwrap_or_default() {
        let text = from_cps(&t);
        let g = serde_json::from_str::<GenericPurl<String>>(&text).is_err();
        ctx.check("C16", "non-string JSON value is refused", "String", g, &json!({"ok": false}), &json!(text));
        #[cfg(feature = "pt")]
        {
            let p = serde_json::from_str::<purl::Purl>(&text).is_err();
            ctx.check("C16", "non-string JSON value is refused", "Purl", p, &json!({"ok": false}), &json!(text));
        }
    }
}

// --------------------------------------------------------------------------- closed sessions (PurlSystem)

fn slot(x: Option<Value>) -> Value {
    match x {
        Some(v) => json!({"some": true, "x": v}),
        None => json!({"some": false}),
    }
}

fn respell(m: &str, s: &str) -> String {
    let rest = &s[4..];
    match m {
        "slashes" => format!("pkg://{}", rest),
        "uppertype" => {
            let i = rest.find('/').unwrap_or(rest.len());
            format!("pkg:{}{}", rest[..i].to_ascii_uppercase(), &rest[i..])
        },
        _ => {
            // lower-case the hex digits of every %XX
            let b: Vec<char> = s.chars().collect();
            let mut out = String::new();
            let mut i = 0;
            while i < b.len() {
                if b[i] == '%' && i + 2 < b.len() {
                    out.push('%');
                    out.push(b[i + 1].to_ascii_lowercase());
                    out.push(b[i + 2].to_ascii_lowercase());
                    i += 3;
                } else {
                    out.push(b[i]);
                    i += 1;
                }
            }
            out
        },
    }
}

fn sys_inst<T>(ctx: &mut Ctx, inst: &str, case: &Value)
where
    T: SysShape + Inst,
    <T as PurlShape>::Error: ErrName + From<<T as FromStr>::Err> + From<purl::ParseError>,
{
    let mut b: Option<GenericPurlBuilder<T>> = None;
    let mut v: Option<GenericPurl<T>> = None;
    let mut w: Option<GenericPurl<T>> = None;
    let mut s: Option<String> = None;
    for st in case["steps"].as_array().cloned().unwrap_or_default() {
        let step = &st["step"];
        let name = step[0].as_str().unwrap_or("");
        let mut err: Option<String> = None;
        // what an observation step saw, next to what the specification says it must see
        let mut seen: Option<(Value, Value)> = None;
        let r = catch_unwind(AssertUnwindSafe(|| match name {
            "new" => {
                b = T::from_st(&from_cps(&step[1])).map(|t| GenericPurlBuilder::new(t, from_cps(&step[2])));
            },
            "new_combined" => {
                b = T::combined(&from_cps(&step[1]), &from_cps(&step[2]));
            },
            "op" => {
                if let Some(bb) = b.take() {
                    match apply_op(bb, &step[1]) {
                        Ok(nb) => b = Some(nb),
                        Err(e) => err = Some(e.err_name()),
                    }
                }
            },
            "build" => {
                if let Some(bb) = b.take() {
                    match bb.build() {
                        Ok(p) => v = Some(p),
                        Err(e) => err = Some(e.err_name()),
                    }
                }
            },
            "into_builder" => {
                if let Some(p) = v.take() {
                    b = Some(p.into_builder());
                }
            },
            "format" => {
                if let Some(p) = &v {
                    s = Some(p.to_string());
                }
            },
            "ser" => {
                if let Some(p) = &v {
                    s = Some(T::ser(p));
                }
            },
            "respell" => {
                if let Some(x) = &s {
                    s = Some(respell(step[1].as_str().unwrap_or(""), x));
                }
            },
            "parse" => {
                if let Some(x) = &s {
                    match GenericPurl::<T>::from_str(x) {
                        Ok(p) => v = Some(p),
                        Err(e) => err = Some(e.err_name()),
                    }
                }
            },
            "de" => {
                if let Some(x) = &s {
                    match T::de(x) {
                        Ok(p) => v = Some(p),
                        Err(e) => err = Some(e),
                    }
                }
            },
            "save" => {
                w = v.clone();
            },
            "swap" => {
                std::mem::swap(&mut v, &mut w);
            },
            "compare" => {
                if let (Some(p), Some(q)) = (&v, &w) {
                    let (sp, sq) = (p.to_string(), q.to_string());
                    let got = json!({
                        "eq": p == q, "ne": p != q, "eq_rev": q == p,
                        "cmp_equal": p.cmp(q) == std::cmp::Ordering::Equal,
                        "cmp_antisym": p.cmp(q) == q.cmp(p).reverse(),
                        "partial_same": p.partial_cmp(q) == Some(p.cmp(q)),
                        "hash_equal_or_differ": p != q || hash_of(p) == hash_of(q),
                        "strings_equal": sp == sq,
                    });
                    let e = step[1] == json!(true);
                    let exp = json!({
                        "eq": e, "ne": !e, "eq_rev": e, "cmp_equal": e, "cmp_antisym": true, "partial_same": true,
                        "hash_equal_or_differ": true, "strings_equal": e,
                    });
                    seen = Some((exp, got));
                }
            },
            "combined_name" => {
                if let Some(p) = &v {
                    seen = Some((step[1].clone(), T::combined_name(p)));
                }
            },
            _ => {},
        }));
        let prop = match name {
            "new" | "op" | "build" => "C09",
            "into_builder" => "C10",
            "format" => "C03",
            "parse" => "C02",
            "ser" | "de" => "C16",
            "save" | "swap" | "compare" => "C19",
            "new_combined" | "combined_name" => "C18",
            _ => "C09",
        };
        if r.is_err() {
            ctx.check("C06", "no panic in a session step", inst, false, &st["after"], &json!({"panic": true}));
            return;
        }
        if let Some((exp, got)) = seen {
            let what = if name == "compare" {
                "two values of a session: ==, !=, cmp, partial_cmp, hash and the canonical strings agree with the specification's equality"
            } else {
                "combined_name() of a value reached in a session"
            };
            if !ctx.check(prop, what, inst, exp == got, &exp, &got) {
                return;
            }
        }
        let obs = json!({
            "b": slot(b.as_ref().map(builder_json)),
            "v": slot(v.as_ref().map(value_json)),
            "w": slot(w.as_ref().map(value_json)),
            "s": slot(s.as_ref().map(|x| cps(x))),
            "err": slot(err.map(|e| json!(e))),
        });
        // error classes of failing builder steps are free (C09 demands refusal only); serde carries no class
        let mut exp = st["after"].clone();
        let mut got = obs.clone();
        if name != "parse" && exp["err"]["some"] == json!(true) && got["err"]["some"] == json!(true) {
            exp["err"] = json!({"some": true});
            got["err"] = json!({"some": true});
        }
        if !ctx.check(prop, "session step leaves the state the specification gives", inst, exp == got, &st["after"], &obs) {
            return;
        }
        if let Some(p) = &v {
            if name == "build" || name == "parse" || name == "de" {
                let o = outcome::<T, <T as PurlShape>::Error>(Ok(Ok(p.clone())));
                universal(ctx, inst, p, &o, &[&st["after"]["v"]["x"]], if name == "build" { "build" } else { "parse" });
            }
        }
    }
}

pub fn run_sys(ctx: &mut Ctx, case: &Value) {
    if case["sh"] == json!("generic") {
        sys_inst::<String>(ctx, "String", case);
        #[cfg(feature = "ss")]
        sys_inst::<purl::SmallString>(ctx, "SmallString", case);
    } else {
        #[cfg(feature = "pt")]
        sys_inst::<purl::PackageType>(ctx, "Purl", case);
    }
    if ctx.samples.len() < 2 {
        ctx.samples.push(json!({"kind": "client session", "case": case}));
    }
}

#[derive(Default, Clone)]
pub struct Opts {
    pub serde: bool,
}

pub fn run_case(ctx: &mut Ctx, case: &Value, opts: &Opts) {
    match case["k"].as_str().unwrap_or("") {
        "parse" => run_parse(ctx, case, opts),
        "build" => run_build(ctx, case),
        "bop" => run_bop(ctx, case),
        "bseq" => run_bseq(ctx, case),
        "qop" => run_qop(ctx, case),
        "qseq" => run_qseq(ctx, case),
        "ckop" => run_ckop(ctx, case),
        "shape" => run_shape(ctx, case),
        "pair" => run_pair(ctx, case),
        "sys" => run_sys(ctx, case),
        #[cfg(feature = "sd")]
        "serde_ns" => run_serde_ns(ctx, case),
        #[cfg(feature = "pt")]
        "tlookup" => run_tlookup(ctx, case),
        #[cfg(feature = "pt")]
        "comb" => run_comb(ctx, case),
        // kinds that need an optional feature this build does not have
        "tlookup" | "comb" | "serde_ns" => ctx.count("skipped_kind_needs_feature"),
        other => {
            eprintln!("unknown case kind {:?} at line {}", other, ctx.line);
            std::process::exit(2);
        },
    }
}

#[allow(dead_code)]
pub fn builder_of<T>(t: T, name: &str) -> GenericPurlBuilder<T> {
    GenericPurlBuilder::new(t, name)
}
