//! A serde Serializer that accepts exactly one string value and nothing else; `human_readable`
//! is a parameter.  C16 says a PURL serialises as its canonical string "as a single string value":
//! that must hold for self-describing text formats and for compact binary ones alike.
#![cfg(feature = "sd")]

use serde::ser::{self, Impossible};
use std::fmt;

#[derive(Debug)]
pub struct NotAString(pub String);

impl fmt::Display for NotAString {
    fn fmt(&self, f: &mut fmt::Formatter<'_>) -> fmt::Result {
        write!(f, "not a string: {}", self.0)
    }
}
impl std::error::Error for NotAString {}
impl ser::Error for NotAString {
    fn custom<T: fmt::Display>(msg: T) -> Self {
        NotAString(msg.to_string())
    }
}

pub struct StrOnly {
    pub human_readable: bool,
    /// refuse even the string (a sink that is full, say)
    pub fail: bool,
}

macro_rules! refuse {
    ($name:ident, $t:ty) => {
        fn $name(self, _v: $t) -> Result<String, NotAString> {
            Err(NotAString(stringify!($name).to_owned()))
        }
    };
}

impl ser::Serializer for StrOnly {
    type Ok = String;
    type Error = NotAString;
    type SerializeSeq = Impossible<String, NotAString>;
    type SerializeTuple = Impossible<String, NotAString>;
    type SerializeTupleStruct = Impossible<String, NotAString>;
    type SerializeTupleVariant = Impossible<String, NotAString>;
    type SerializeMap = Impossible<String, NotAString>;
    type SerializeStruct = Impossible<String, NotAString>;
    type SerializeStructVariant = Impossible<String, NotAString>;

    fn is_human_readable(&self) -> bool {
        self.human_readable
    }

    fn serialize_str(self, v: &str) -> Result<String, NotAString> {
        if self.fail {
            Err(NotAString("sink refused the string".into()))
        } else {
            Ok(v.to_owned())
        }
    }

    refuse!(serialize_bool, bool);
    refuse!(serialize_i8, i8);
    refuse!(serialize_i16, i16);
    refuse!(serialize_i32, i32);
    refuse!(serialize_i64, i64);
    refuse!(serialize_u8, u8);
    refuse!(serialize_u16, u16);
    refuse!(serialize_u32, u32);
    refuse!(serialize_u64, u64);
    refuse!(serialize_f32, f32);
    refuse!(serialize_f64, f64);
    refuse!(serialize_char, char);
    refuse!(serialize_bytes, &[u8]);

    fn serialize_none(self) -> Result<String, NotAString> {
        Err(NotAString("none".into()))
    }
    fn serialize_some<T: ?Sized + ser::Serialize>(self, _v: &T) -> Result<String, NotAString> {
        Err(NotAString("some".into()))
    }
    fn serialize_unit(self) -> Result<String, NotAString> {
        Err(NotAString("unit".into()))
    }
    fn serialize_unit_struct(self, _n: &'static str) -> Result<String, NotAString> {
        Err(NotAString("unit struct".into()))
    }
    fn serialize_unit_variant(self, _n: &'static str, _i: u32, _v: &'static str) -> Result<String, NotAString> {
        Err(NotAString("unit variant".into()))
    }
    fn serialize_newtype_struct<T: ?Sized + ser::Serialize>(self, _n: &'static str, _v: &T) -> Result<String, NotAString> {
        Err(NotAString("newtype struct".into()))
    }
    fn serialize_newtype_variant<T: ?Sized + ser::Serialize>(self, _n: &'static str, _i: u32, _v: &'static str, _x: &T) -> Result<String, NotAString> {
        Err(NotAString("newtype variant".into()))
    }
    fn serialize_seq(self, _l: Option<usize>) -> Result<Self::SerializeSeq, NotAString> {
        Err(NotAString("seq".into()))
    }
    fn serialize_tuple(self, _l: usize) -> Result<Self::SerializeTuple, NotAString> {
        Err(NotAString("tuple".into()))
    }
    fn serialize_tuple_struct(self, _n: &'static str, _l: usize) -> Result<Self::SerializeTupleStruct, NotAString> {
        Err(NotAString("tuple struct".into()))
    }
    fn serialize_tuple_variant(self, _n: &'static str, _i: u32, _v: &'static str, _l: usize) -> Result<Self::SerializeTupleVariant, NotAString> {
        Err(NotAString("tuple variant".into()))
    }
    fn serialize_map(self, _l: Option<usize>) -> Result<Self::SerializeMap, NotAString> {
        Err(NotAString("map".into()))
    }
    fn serialize_struct(self, _n: &'static str, _l: usize) -> Result<Self::SerializeStruct, NotAString> {
        Err(NotAString("struct".into()))
    }
    fn serialize_struct_variant(self, _n: &'static str, _i: u32, _v: &'static str, _l: usize) -> Result<Self::SerializeStructVariant, NotAString> {
        Err(NotAString("struct variant".into()))
    }
}
