//! impl -> spec: exercise the real library on domains TLC cannot enumerate and record one
//! ndjson event per public call (arguments, result, projected state).  The events are judged
//! by TLC with the trace specifications in /verif/spec/trace.
//!
//!   drive <driver> --seed N --n N --out FILE [--corpus FILE]...
//!
//! drivers: garbage, corpus, scalars, qual-ops, checksum-ops, builder-ops, big

use std::io::Write;
use std::panic::{catch_unwind, AssertUnwindSafe};
use std::str::FromStr;
use std::sync::atomic::Ordering;

use purl::{GenericPurl, GenericPurlBuilder, PurlShape};
use serde_json::{json, Value};

use crate::proj::*;
use crate::replay::{self, Ctx, Inst};

fn arg_value(args: &[String], name: &str) -> Option<String> {
    args.iter().position(|a| a == name).and_then(|i| args.get(i + 1).cloned())
}

fn arg_values(args: &[String], name: &str) -> Vec<String> {
    args.iter().enumerate().filter(|(_, a)| *a == name).filter_map(|(i, _)| args.get(i + 1).cloned()).collect()
}

/// char::to_lowercase of every non-ASCII character that occurs in the strings (raw or behind
/// percent-escapes) and is changed by it: the table the specification takes as an input.
pub fn lc_table(strings: &[&str]) -> Value {
    let mut seen = std::collections::BTreeSet::new();
    for s in strings {
        for c in s.chars() {
            seen.insert(c);
        }
        let decoded: Vec<u8> = percent_decode(s.as_bytes());
        for c in String::from_utf8_lossy(&decoded).chars() {
            seen.insert(c);
        }
    }
    let mut out = Vec::new();
    for c in seen {
        if !c.is_ascii() {
            let lower: Vec<char> = c.to_lowercase().collect();
            if lower != [c] {
                out.push(json!([c as u32, lower.iter().map(|x| *x as u32).collect::<Vec<u32>>()]));
            }
        }
    }
    Value::Array(out)
}

fn hexval(b: u8) -> Option<u8> {
    match b {
        b'0'..=b'9' => Some(b - b'0'),
        b'a'..=b'f' => Some(b - b'a' + 10),
        b'A'..=b'F' => Some(b - b'A' + 10),
        _ => None,
    }
}

fn percent_decode(b: &[u8]) -> Vec<u8> {
    let mut out = Vec::with_capacity(b.len());
    let mut i = 0;
    while i < b.len() {
        if b[i] == b'%' && i + 2 < b.len() {
            if let (Some(h), Some(l)) = (hexval(b[i + 1]), hexval(b[i + 2])) {
                out.push(h * 16 + l);
                i += 3;
                continue;
            }
        }
        out.push(b[i]);
        i += 1;
    }
    out
}

fn ps<'a>(rng: &mut Rng, xs: &[&'a str]) -> &'a str {
    xs[rng.below(xs.len())]
}

struct Sink {
    out: std::io::BufWriter<std::fs::File>,
    n: u64,
    ctx: Ctx,
    samples: Vec<Value>,
}

impl Sink {
    fn emit(&mut self, ev: Value) {
        if self.samples.len() < 3 && ev["ev"] != json!("reset") {
            self.samples.push(ev.clone());
        }
        // how many events are non-trivial (accepted values, found types, equal pairs, ...)
        let kind = ev["ev"].as_str().unwrap_or("").to_owned();
        let flag = if ev["out"]["ok"] == json!(true) || ev["res"]["some"] == json!(true) || ev["eq"] == json!(true) || ev["res"]["ok"] == json!(true) { "pos" } else { "neg" };
        self.ctx.count(&format!("{}_{}", kind, flag));
        writeln!(self.out, "{}", ev).expect("write event");
        self.n += 1;
        crate::PROGRESS.store(self.n, Ordering::Relaxed);
    }
}

fn parse_event<T: Inst>(sink: &mut Sink, sh: &str, inst: &str, s: &str)
where
    <T as PurlShape>::Error: ErrName + From<<T as FromStr>::Err> + std::fmt::Display,
{
    let (obs, p) = replay::parse_outcome::<T>(s);
    // the error text is part of the observable result (C17 compares it across feature sets)
    let text = if obs["ok"] == json!(false) {
        match catch_unwind(AssertUnwindSafe(|| GenericPurl::<T>::from_str(s))) {
            Ok(Err(e)) => e.to_string(),
            _ => String::new(),
        }
    } else {
        String::new()
    };
    // universal properties are observed on the live value (C01 fixpoint, C10 rebuild, C04 coherence)
    sink.ctx.case = json!({"s": cps(s)});
    if let Some(p) = &p {
        let known = obs["v"].clone();
        replay::universal(&mut sink.ctx, inst, p, &obs, &[&known], "parse");
    }
    sink.emit(json!({"ev": "parse", "sh": sh, "inst": inst, "s": cps(s), "out": for_tlc(&obs), "text": text, "lc": lc_table(&[s])}));
    let _ = &p;
}

fn parse_all(sink: &mut Sink, s: &str) {
    parse_event::<String>(sink, "generic", "String", s);
    #[cfg(feature = "pt")]
    parse_event::<purl::PackageType>(sink, "typed", "Purl", s);
    // C18: combined_name() of a parsed typed PURL, and the constructor applied to it
    #[cfg(feature = "pt")]
    if let Ok(p) = <purl::Purl as FromStr>::from_str(s) {
        let r = catch_unwind(AssertUnwindSafe(|| {
            let j = p.combined_name().into_owned();
            let b2 = purl::Purl::builder_with_combined_name(*p.package_type(), &j);
            (j, json!({"ns": cps(&b2.parts.namespace), "name": cps(&b2.parts.name)}))
        }));
        match r {
            Ok((j, inv)) => sink.emit(json!({"ev": "combinv", "v": value_json(&p), "joined": cps(&j), "inverse": inv})),
            Err(_) => sink.emit(json!({"ev": "combinv", "v": value_json(&p), "panic": true})),
        }
    }
    // C13: the small-string type parameter parses exactly like the owned string
    #[cfg(feature = "ss")]
    {
        let (a, _) = replay::parse_outcome::<String>(s);
        let (b, _) = replay::parse_outcome::<purl::SmallString>(s);
        sink.ctx.case = json!({"s": cps(s)});
        sink.ctx.check_eq("C13", "String and SmallString parse alike", "SmallString", &a, &b);
    }
    // C16: deserialising the string value behaves exactly like parsing it
    #[cfg(feature = "sd")]
    {
        sink.ctx.serde = true;
        let (a, _) = replay::parse_outcome::<String>(s);
        sink.ctx.case = json!({"s": cps(s)});
        replay::serde_checks::<String>(&mut sink.ctx, "String", s, &a);
        #[cfg(feature = "pt")]
        {
            let (t, _) = replay::parse_outcome::<purl::PackageType>(s);
            replay::serde_checks::<purl::PackageType>(&mut sink.ctx, "Purl", s, &t);
        }
    }
}

// --------------------------------------------------------------------------- string generators

const SEP_HEAVY: &[&str] = &[
    "/", "/", "@", "?", "#", "=", "&", "%", ":", ".", "..", "+", "-", "_", " ", "a", "b", "k", "T", "Z", "1", "0",
    "%2F", "%2f", "%40", "%3F", "%23", "%26", "%3D", "%25", "%2E", "%2e", "%20", "%00", "%41", "%C3%A9", "%c3%a9", "%80", "%C3",
    "%ED%A0%80", "%F4%90%80%80", "%C0%80", "%E2%82", "é", "Æ", "ǅ", "Σ", "ß", "\u{212A}", "\u{130}", "日", "\u{1F600}", "\u{0}", "\t", "\"", "<", ">", "`", "{", "}", "|", "\\", "^",
    "pkg:", "npm", "maven", "pypi", "nuget", "golang", "cargo", "gem", "checksum", "sha1:", "00", "aB", ",", "repository_url",
];

fn garbage(rng: &mut Rng) -> String {
    let mut s = String::new();
    if rng.chance(8, 10) {
        s.push_str("pkg:");
        if rng.chance(1, 6) {
            for _ in 0..rng.below(3) {
                s.push('/');
            }
        }
        if rng.chance(7, 10) {
            s.push_str(ps(rng, &["t", "npm", "maven", "pypi", "NuGet", "golang", "cargo", "gem", "T+1", "a.b-c", "1x", "t%74"]));
            s.push('/');
        }
    } else if rng.chance(1, 2) {
        s.push_str(ps(rng, &["PKG:", "pkg", "http://", "pkg;", " pkg:", "pkg:pkg:"]));
    }
    for _ in 0..rng.below(14) {
        s.push_str(ps(rng, SEP_HEAVY));
    }
    s
}

const LOOKALIKES: &[(char, char)] = &[('s', '\u{17F}'), ('k', '\u{212A}'), ('K', '\u{212A}'), ('i', '\u{131}'), ('I', '\u{130}'), ('a', '\u{FF41}'), ('A', '\u{391}'), ('e', '\u{435}')];

fn mutate(rng: &mut Rng, s: &str) -> String {
    let mut chars: Vec<char> = s.chars().collect();
    let n = 1 + rng.below(3);
    for _ in 0..n {
        let len = chars.len();
        match rng.below(9) {
            0 if len > 0 => {
                chars.remove(rng.below(len));
            },
            1 => {
                let t: Vec<char> = ps(rng, SEP_HEAVY).chars().collect();
                let at = rng.below(len + 1);
                for (i, c) in t.into_iter().enumerate() {
                    chars.insert(at + i, c);
                }
            },
            2 if len > 1 => {
                let i = rng.below(len - 1);
                chars.swap(i, i + 1);
            },
            3 if len > 0 => {
                // escape toggle: one character -> %XX (random hex case)
                let i = rng.below(len);
                let c = chars.remove(i);
                let mut buf = [0u8; 4];
                let lower = rng.chance(1, 2);
                let mut at = i;
                for b in c.encode_utf8(&mut buf).bytes() {
                    let e = if lower { format!("%{:02x}", b) } else { format!("%{:02X}", b) };
                    for ch in e.chars() {
                        chars.insert(at, ch);
                        at += 1;
                    }
                }
            },
            4 if len > 0 => {
                let i = rng.below(len);
                let c = chars[i];
                chars[i] = if c.is_ascii_lowercase() { c.to_ascii_uppercase() } else { c.to_ascii_lowercase() };
            },
            5 if len > 0 => {
                // look-alike substitution
                let idx: Vec<usize> = (0..len).filter(|i| LOOKALIKES.iter().any(|(a, _)| *a == chars[*i])).collect();
                if !idx.is_empty() {
                    let i = *rng.pick(&idx);
                    let subs: Vec<char> = LOOKALIKES.iter().filter(|(a, _)| *a == chars[i]).map(|(_, b)| *b).collect();
                    chars[i] = *rng.pick(&subs);
                }
            },
            6 if len > 0 => {
                // duplicate a separator-delimited piece
                let i = rng.below(len);
                let c = chars[i];
                chars.insert(i, c);
            },
            7 => {
                let extra = ps(rng, &["?k=v", "&K=w", "#s/./t", "@2", "/x/", "?checksum=sha1:00ff,MD5:AB", "&checksum=zz", "%"]);
                let at = rng.below(len + 1);
                for (i, c) in extra.chars().enumerate() {
                    chars.insert(at + i, c);
                }
            },
            _ => {},
        }
    }
    chars.into_iter().collect()
}

const EXTRA_SEEDS: &[&str] = &[
    "pkg:type/name?checksum=sha1:ad9503c3e994a4f611a4892f2e67ac82df727086,sha256:aabbccdd",
    "pkg:npm/@angular/cli@1.0.0?k=v#src/main",
    "pkg:pypi/Django_.-package@1.0",
    "pkg:nuget/Newtonsoft.Json@13.0.1?repository_url=https://example.com/a&b=c",
    "pkg:maven/org.apache/commons:io@1?type=jar&classifier=sources",
    "pkg:golang/github.com/a/b/c@v1.2.3#cmd/tool",
    "pkg:t/ns/n@1?k=%26%3D%23&checksum=SHA1:00FF,md5:ab#a/%2e%2e%2Fb",
];

/// String literals that look like PURLs in the repository's own sources (unit tests, doc examples,
/// README): the inputs of the existing tests, checked here with the full set of assertions.
fn scan_sources(dir: &str, out: &mut Vec<String>) {
    let Ok(rd) = std::fs::read_dir(dir) else { return };
    for e in rd.flatten() {
        let p = e.path();
        if p.is_dir() {
            scan_sources(&p.to_string_lossy(), out);
        } else if matches!(p.extension().and_then(|x| x.to_str()), Some("rs") | Some("md")) {
            if let Ok(text) = std::fs::read_to_string(&p) {
                let mut rest = text.as_str();
                while let Some(i) = rest.find("\"pkg:") {
                    let tail = &rest[i + 1..];
                    if let Some(j) = tail.find('"') {
                        let lit = &tail[..j];
                        if !lit.contains('\\') && !lit.contains('{') && lit.len() < 300 && !out.iter().any(|x| x == lit) {
                            out.push(lit.to_owned());
                        }
                        rest = &tail[j..];
                    } else {
                        break;
                    }
                }
            }
        }
    }
}

fn load_corpus(paths: &[String]) -> Vec<String> {
    let mut out: Vec<String> = EXTRA_SEEDS.iter().map(|s| s.to_string()).collect();
    for p in paths {
        if std::path::Path::new(p).is_dir() {
            scan_sources(p, &mut out);
        }
    }
    for p in paths {
        if let Ok(text) = std::fs::read_to_string(p) {
            if let Ok(Value::Array(items)) = serde_json::from_str::<Value>(&text) {
                for it in items {
                    if let Some(s) = it["purl"].as_str() {
                        out.push(s.to_owned());
                    }
                }
            }
        }
    }
    out
}

// --------------------------------------------------------------------------- drivers

fn drive_garbage(sink: &mut Sink, rng: &mut Rng, n: usize) {
    for _ in 0..n {
        let s = garbage(rng);
        parse_all(sink, &s);
    }
}

fn drive_corpus(sink: &mut Sink, rng: &mut Rng, n: usize, corpus: &[String]) {
    for s in corpus {
        parse_all(sink, s);
    }
    // systematic look-alike sweep: every single substitution of a letter by a non-ASCII look-alike
    for s in corpus {
        let chars: Vec<char> = s.chars().collect();
        for i in 0..chars.len() {
            for (a, b) in LOOKALIKES {
                if chars[i] == *a {
                    let mut c = chars.clone();
                    c[i] = *b;
                    let m: String = c.into_iter().collect();
                    parse_all(sink, &m);
                }
            }
        }
    }
    for _ in 0..n {
        let base = rng.pick(corpus).clone();
        let s = mutate(rng, &base);
        parse_all(sink, &s);
    }
}

fn scalar(i: u32) -> Option<char> {
    char::from_u32(i)
}

/// Scalar values that a narrowing cast maps to a separator, a pypi dash character, '%', a letter or a digit.
fn low_byte_lookalikes() -> Vec<u32> {
    let mut v = Vec::new();
    for x in b"/@?#%:=&-_.+, Az09" {
        for base in [0x100u32, 0x400, 0x4E00, 0xFF00, 0x10000, 0x1F600, 0x100000] {
            v.push(base + *x as u32);
        }
    }
    v
}

fn drive_scalars(sink: &mut Sink, rng: &mut Rng, n: usize) {
    // boundaries, ASCII white space, and the invisible / formatting characters a "tolerant" reader might strip
    let mut fixed: Vec<u32> = vec![0xA, 0xB, 0xC, 0xD, 0x85, 0xA0, 0xAD, 0x180E, 0x200B, 0x200C, 0x200D, 0x200E, 0x200F, 0x2028, 0x2029, 0x202F, 0x2060, 0x3000, 0xFEFF, 0xFFFE,
                                   // capitals without a lower-case mapping, special case mappings, ligatures
                                   0x2102, 0x2115, 0x2124, 0x3D2, 0x1D400, 0x1D49C, 0x1D7CA, 0xDF, 0x1E9E, 0x3A3, 0x3C2, 0x345, 0xFB00, 0xFB06, 0x1F88, 0x1FBC, 0x2160, 0x24B6, 0x10400,
                                   0, 9, 0x1F, 0x20, 0x25, 0x2F, 0x7F, 0x80, 0xC6, 0xDF, 0x130, 0x131, 0x17F, 0x1C5, 0x3A3, 0x7FF, 0x800, 0x212A, 0x24B6,
                                   0xD7FF, 0xE000, 0xFF21, 0xFFFD, 0xFFFF, 0x10000, 0x10400, 0x1E900, 0x10FFFF];
    fixed.extend(low_byte_lookalikes());
    // every scalar value if n covers them, otherwise the fixed list + a seeded sample
    let all: Box<dyn Iterator<Item = u32>> = if n >= 0x110000 {
        Box::new(0u32..0x110000)
    } else {
        let mut v = fixed.clone();
        for _ in 0..n.saturating_sub(v.len()) {
            v.push((rng.next() % 0x110000) as u32);
        }
        Box::new(v.into_iter())
    };
    // characters whose low byte (or low 16 bits) is an ASCII character the library treats specially, in every
    // component at once: a truncating conversion would take them for that character
    for i in low_byte_lookalikes() {
        let Some(c) = scalar(i) else { continue };
        let s = format!("pkg:t/a{c}/b/n{c}@v{c}?k=x{c}#s{c}/t");
        parse_all(sink, &s);
    }
    for i in all {
        let Some(c) = scalar(i) else { continue };
        let mut esc = String::new();
        let mut buf = [0u8; 4];
        for b in c.encode_utf8(&mut buf).bytes() {
            esc.push_str(&format!("%{:02X}", b));
        }
        #[cfg(feature = "pt")]
        {
            // nuget: escaped, next to an ASCII capital; pypi: raw, next to a separator run
            let s1 = format!("pkg:nuget/A{}", esc);
            parse_event::<purl::PackageType>(sink, "typed", "Purl", &s1);
            let s2 = format!("pkg:pypi/{}_.b", c);
            parse_event::<purl::PackageType>(sink, "typed", "Purl", &s2);
        }
        // generic: the character raw in the name, behind a namespace
        let s3 = format!("pkg:t/n/x{}", c);
        parse_event::<String>(sink, "generic", "String", &s3);
        // The further positions: every scalar below U+3000 (all cased scripts' bulk, punctuation, format characters), the
        // fixed list above, and every 61st scalar beyond when the sweep is exhaustive (the three positions above see all).
        if n >= 0x110000 && i >= 0x3000 && i % 61 != 0 && !fixed.contains(&i) {
            continue;
        }
        // in front of the scheme and inside the type: never accepted / only [A-Za-z0-9.+-] accepted
        parse_all(sink, &format!("{}pkg:npm/n", c));
        parse_all(sink, &format!("pkg:npm{}/n", c));
        // and inside a checksum algorithm name (lower-cased with the Unicode mapping, which leaves some capitals alone)
        let s4 = format!("pkg:t/n?checksum=a{}:0A", esc);
        parse_event::<String>(sink, "generic", "String", &s4);
    }
}

const QKEYS: &[&str] = &[
    "k", "K", "ka", "k_", "K_", "kb", "k1", "KA", "a.b", "A.B", "a-b", "z", "Z", "zz", "z_", "checksum", "CHECKSUM", "repository_url", "Repository_Url",
    "", "!", "a b", "é", "\u{212A}", "k\u{17F}", "a=b", "a&b", "%6B", "k ", " k",
    // keys around 32 and 64 characters, one the prefix of the other
    "abcdefghijklmnopqrstuvwxyz01234", "abcdefghijklmnopqrstuvwxyz012345", "abcdefghijklmnopqrstuvwxyz0123456", "ABCDEFGHIJKLMNOPQRSTUVWXYZ0123456",
    "abcdefghijklmnopqrstuvwxyz0123457", "org.example.build.reproducible_flags.with-a-very-long-qualifier-key",
    "org.example.build.reproducible_flags.with-a-very-long-qualifier-key2",
];
const QVALS: &[&str] = &["", "x", "y", "a&b=c", "%41", "é", " ", "sha1:00ff", "B:0A,a:fF", "zz", "a:0", "v#s", "\u{0}"];

fn random_qop(rng: &mut Rng) -> Value {
    let k = cps(ps(rng, QKEYS));
    let v = cps(ps(rng, QVALS));
    match rng.below(30) {
        0..=5 => json!(["insert", k, v]),
        6 => json!(["get", k]),
        7 => json!(["contains_key", k]),
        8..=9 => json!(["remove", k]),
        10 => json!(["get_mut_set", k, v]),
        11 => json!(["index", k]),
        12 => json!(["index_mut_set", k, v]),
        13 => json!(["entry_classify", k]),
        14 => json!(["entry_or_insert", k, v]),
        15 => json!(["entry_or_insert_with", k, v]),
        16 => json!(["entry_and_modify_or_insert", k, cps("m"), v]),
        17 => json!(["occ_insert", k, v]),
        18 => json!(["occ_remove", k]),
        19 => json!(["occ_remove_entry", k]),
        20 => json!(["vac_insert", k, v]),
        21 => json!(["retain_nonempty"]),
        22 => {
            // judged for ASCII probes only
            let ks: Vec<&str> = QKEYS.iter().copied().filter(|k| k.is_ascii()).collect();
            json!(["retain_key_ne", cps(ps(rng, &ks))])
        },
        23 => {
            if rng.chance(1, 2) {
                json!(["retain_mut_set", v])
            } else {
                let ks: Vec<&str> = QKEYS.iter().copied().filter(|k| k.is_ascii()).collect();
                json!(["count_keys_lt", cps(ps(rng, &ks))])
            }
        },
        24 => json!(["iter_mut_set", v]),
        25 => json!(["insert_typed_repo", v]),
        26 => json!(["remove_typed_repo"]),
        27 => json!(["get_typed_repo"]),
        28 => {
            if rng.chance(1, 2) {
                json!(["try_get_typed_checksum"])
            } else {
                let n = ps(rng, &["RepositoryUrl", "DownloadUrl", "VcsUrl", "FileName", "gem::Platform", "maven::Classifier", "maven::Type", "user::BuildTag"]);
                match rng.below(3) {
                    0 => json!(["insert_typed", n, v]),
                    1 => json!(["get_typed", n]),
                    _ => json!(["remove_typed", n]),
                }
            }
        },
        _ => {
            if rng.chance(1, 10) {
                json!(["clear"])
            } else {
                let n = rng.below(4);
                let pairs: Vec<Value> = (0..n).map(|_| json!([cps(ps(rng, QKEYS)), cps(ps(rng, QVALS))])).collect();
                json!(["try_from_iter", pairs])
            }
        },
    }
}

fn drive_qual_ops(sink: &mut Sink, rng: &mut Rng, n: usize) {
    let mut q = purl::Qualifiers::default();
    let mut since = 0;
    sink.emit(json!({"ev": "reset"}));
    for _ in 0..n {
        if since >= 60 {
            q = purl::Qualifiers::default();
            since = 0;
            sink.emit(json!({"ev": "reset"}));
        }
        since += 1;
        let op = random_qop(rng);
        let res = match catch_unwind(AssertUnwindSafe(|| replay::apply_qop(&mut q, &op))) {
            Ok(v) => v,
            Err(_) => json!({"panic": true}),
        };
        let ex = quals_extras(&q);
        sink.emit(json!({"ev": "q", "op": op, "res": res, "post": quals_json(&q), "coherent": ex}));
    }
}

const CALGS: &[&str] = &["sha1", "SHA1", "Sha1", "md5", "MD5", "a:b", "A:B", "", "É", "é", "ǅ", "ǆ", "Σ", "x y", "\u{17F}ha1", "\u{212A}"];
const CHEX: &[&str] = &["", "00", "0A", "0a", "ff", "FF", "xx", "0", "00ff00", "é"];

fn drive_checksum_ops(sink: &mut Sink, rng: &mut Rng, n: usize) {
    use purl::qualifiers::well_known::Checksum;
    let mut ck: Checksum<'static> = Checksum::default();
    let mut since = 0;
    // for the evidence: how many different iteration orders were observed for the same key set
    let mut orders: std::collections::BTreeMap<Vec<String>, std::collections::BTreeSet<Vec<String>>> = Default::default();
    sink.emit(json!({"ev": "reset"}));
    for _ in 0..n {
        if since >= 40 {
            ck = Checksum::default();
            since = 0;
            sink.emit(json!({"ev": "reset"}));
        }
        since += 1;
        let a = cps(ps(rng, CALGS));
        let op = match rng.below(12) {
            0..=3 => json!(["insert_raw", a, cps(ps(rng, CHEX))]),
            4 => {
                let len = rng.below(4);
                let bytes: Vec<u8> = (0..len).map(|_| (rng.next() & 0xFF) as u8).collect();
                json!(["insert_bytes", a, bytes])
            },
            5 => json!(["remove", a]),
            6 => json!(["get_raw", a]),
            7 => json!(["get_bytes", a]),
            8 => json!(["entries"]),
            9..=10 => json!(["to_text"]),
            _ => {
                let n = 1 + rng.below(3);
                let text: Vec<String> = (0..n).map(|_| format!("{}:{}", ps(rng, CALGS), ps(rng, CHEX))).collect();
                json!(["from_text", cps(&text.join(","))])
            },
        };
        let order: Vec<String> = ck.algorithms().map(|s| s.to_owned()).collect();
        if order.len() >= 2 {
            let mut key = order.clone();
            key.sort();
            orders.entry(key).or_default().insert(order.clone());
        }
        let res = match catch_unwind(AssertUnwindSafe(|| replay::apply_ckop(&mut ck, &op))) {
            Ok(v) => v,
            Err(_) => json!({"panic": true}),
        };
        let mut post: Vec<(String, String)> = ck.iter().map(|(a, h)| (a.to_owned(), h.raw().to_owned())).collect();
        post.sort();
        let lc_src: Vec<&str> = CALGS.to_vec();
        sink.emit(json!({"ev": "ck", "op": op, "res": res,
                         "post": post.iter().map(|(a, h)| json!([cps(a), cps(h)])).collect::<Vec<_>>(),
                         "order": order.iter().map(|s| cps(s)).collect::<Vec<_>>(), "lc": lc_table(&lc_src)}));
    }
    let multi = orders.values().filter(|v| v.len() > 1).count();
    for _ in 0..multi {
        sink.ctx.count("key_sets_seen_in_more_than_one_iteration_order");
    }
    for _ in 0..orders.len() {
        sink.ctx.count("key_sets_with_two_or_more_algorithms");
    }
}

const BSTR: &[&str] = &["", "a", "A/b", "/", "//", "a//b", ".", "..", "a/./b", "n", "N_.-x", "é", "ǅÆ", "a b", "a%2Fb", "%", "%zz", "@", "a@b", "?", "a?b=c", "#", "a#b", "&", "=", "a&b=c", "+", "\u{0}", "\u{7f}", "\"<>`{}", "日本"];
const BTYPES: &[&str] = &["t", "T", "npm", "Deb", "a.b+c-d", "1x", "", "!", "a,b", "é", "t ", "MAVEN"];

fn random_bop(rng: &mut Rng) -> Value {
    let s = cps(ps(rng, BSTR));
    match rng.below(16) {
        0 => json!(["with_namespace", s]),
        1 => json!(["without_namespace"]),
        2 => json!(["with_name", s]),
        3 => json!(["with_version", s]),
        4 => json!(["without_version"]),
        5 => json!(["with_subpath", s]),
        6 => json!(["without_subpath"]),
        7..=9 => json!(["with_qualifier", cps(ps(rng, QKEYS)), cps(ps(rng, QVALS))]),
        10 => json!(["with_qualifier", cps(ps(rng, QKEYS)), s]),
        11 => json!(["without_qualifier", cps(ps(rng, QKEYS))]),
        12 => {
            match rng.below(4) {
                0 => json!(["edit_name", s]),
                1 => json!(["edit_ns", s]),
                2 => json!(["edit_qual", cps(ps(rng, QKEYS)), cps(ps(rng, QVALS))]),
                _ => json!(["with_typed_repo", s]),
            }
        },
        13 => json!(["without_typed_repo"]),
        14 => {
            let n = rng.below(3);
            let es: Vec<Value> = (0..n).map(|_| json!([cps(ps(rng, CALGS)), cps(ps(rng, CHEX))])).collect();
            json!(["try_with_typed_checksum", es])
        },
        _ => {
            if rng.chance(1, 3) {
                json!(["without_qualifiers"])
            } else {
                json!(["without_typed_checksum"])
            }
        },
    }
}

fn bseq_run<T>(ops: &[Value]) -> (Value, Option<String>)
where
    T: replay::StShape + Clone,
    <T as PurlShape>::Error: ErrName + From<purl::ParseError>,
{
    let Some(t) = T::from_st(&from_cps(&ops[0][1])) else { return (Value::Null, None) };
    let name = from_cps(&ops[0][2]);
    let r = catch_unwind(AssertUnwindSafe(|| -> Result<GenericPurl<T>, <T as PurlShape>::Error> {
        let mut b = GenericPurlBuilder::new(t, name);
        for op in &ops[1..] {
            b = replay::apply_op(b, op)?;
        }
        b.build()
    }));
    let canon = match &r {
        Ok(Ok(p)) => display(p),
        _ => None,
    };
    (outcome::<T, <T as PurlShape>::Error>(r), canon)
}

/// The same call sequence with a borrowed copy-on-write type string.
fn bseq_run_borrowed(ops: &[Value]) -> (Value, Option<String>) {
    let st: &'static str = Box::leak(from_cps(&ops[0][1]).into_boxed_str());
    let name = from_cps(&ops[0][2]);
    let r = catch_unwind(AssertUnwindSafe(|| -> Result<GenericPurl<std::borrow::Cow<'static, str>>, purl::ParseError> {
        let mut b = GenericPurlBuilder::new(std::borrow::Cow::Borrowed(st), name);
        for op in &ops[1..] {
            if op[0] == json!("with_package_type") {
                let t: &'static str = Box::leak(from_cps(&op[1]).into_boxed_str());
                b = b.with_package_type(std::borrow::Cow::Borrowed(t));
            } else {
                b = replay::apply_op(b, op)?;
            }
        }
        b.build()
    }));
    let canon = match &r {
        Ok(Ok(p)) => display(p),
        _ => None,
    };
    (outcome::<std::borrow::Cow<'static, str>, purl::ParseError>(r), canon)
}

fn drive_builder_ops(sink: &mut Sink, rng: &mut Rng, n: usize) {
    for i in 0..n {
        let typed = cfg!(feature = "pt") && i % 3 == 0;
        let t = if typed { ps(rng, &["maven", "pypi", "nuget", "npm", "golang", "cargo", "gem"]) } else { ps(rng, BTYPES) };
        let mut ops = vec![json!(["new", cps(t), cps(ps(rng, BSTR))])];
        for _ in 0..rng.below(7) {
            ops.push(random_bop(rng));
        }
        let mut strs: Vec<String> = Vec::new();
        for op in &ops {
            for a in op.as_array().unwrap().iter().skip(1) {
                if a.as_array().map(|x| x.iter().all(|y| y.is_u64())).unwrap_or(false) {
                    strs.push(from_cps(a));
                } else if let Some(es) = a.as_array() {
                    for e in es {
                        strs.push(from_cps(&e[0]));
                    }
                }
            }
        }
        let refs: Vec<&str> = strs.iter().map(|s| s.as_str()).collect();
        let (out, canon, back) = if typed {
            #[cfg(feature = "pt")]
            {
                let (o, c) = bseq_run::<purl::PackageType>(&ops);
                let back = c.as_ref().map(|c| replay::parse_outcome::<purl::PackageType>(c).0);
                (o, c, back)
            }
            #[cfg(not(feature = "pt"))]
            {
                (Value::Null, None, None)
            }
        } else {
            let (o, c) = bseq_run::<String>(&ops);
            let back = c.as_ref().map(|c| replay::parse_outcome::<String>(c).0);
            // C13: the same calls with the other built-in type parameters
            sink.ctx.case = json!({"ops": ops});
            let (o2, _) = bseq_run::<std::borrow::Cow<'static, str>>(&ops);
            sink.ctx.check_eq("C13", "String and Cow build alike", "CowOwned", &o, &o2);
            let (o2b, _) = bseq_run_borrowed(&ops);
            sink.ctx.check_eq("C13", "String and Cow::Borrowed build alike", "CowBorrowed", &o, &o2b);
            #[cfg(feature = "ss")]
            {
                let (o3, _) = bseq_run::<purl::SmallString>(&ops);
                sink.ctx.check_eq("C13", "String and SmallString build alike", "SmallString", &o, &o3);
            }
            (o, c, back)
        };
        let _ = canon;
        sink.emit(json!({"ev": "bseq", "sh": if typed { "typed" } else { "generic" }, "ops": ops, "out": for_tlc(&out),
                         "back": back.map(|b| for_tlc(&b)).unwrap_or(json!({"none": true})), "lc": lc_table(&refs)}));
    }
}

/// The families of large inputs, as functions of the size: what makes a member valid or invalid does not depend on it.
fn big_family(i: usize, size: usize) -> Option<(&'static str, String)> {
    let fill = |unit: &str, size: usize| -> String { unit.repeat(size / unit.len().max(1) + 1).chars().take(size).collect() };
    let grow = |head: &str, item: &dyn Fn(usize) -> String, tail: &str| -> String {
        let mut s = String::from(head);
        let mut i = 0;
        while s.len() < size {
            s.push_str(&item(i));
            i += 1;
        }
        s.push_str(tail);
        s
    };
    Some(match i {
        0 => ("long name", format!("pkg:t/{}", fill("a", size))),
        1 => ("long escaped name", format!("pkg:t/{}", fill("%41", size))),
        2 => ("many namespace segments", format!("pkg:t/{}n", fill("a/", size))),
        3 => ("many empty segments", format!("pkg:t/{}n", fill("/", size))),
        4 => ("many subpath dot segments", format!("pkg:t/n#{}", fill("../", size))),
        5 => ("many qualifiers", grow("pkg:t/n?", &|i| format!("k{}=v&", i), "z=1")),
        6 => ("duplicate qualifier far apart", grow("pkg:t/n?dup=1&", &|i| format!("k{}=v&", i), "DUP=2")),
        7 => ("long checksum", grow("pkg:t/n?checksum=", &|i| format!("alg{}:00ff,", i), "z:00")),
        8 => ("many percent signs", format!("pkg:t/{}", fill("%", size))),
        9 => ("many at signs", format!("pkg:t/{}", fill("@", size))),
        10 => ("many question marks", format!("pkg:t/n{}", fill("?", size))),
        11 => ("many hashes", format!("pkg:t/n{}", fill("#", size))),
        12 => ("long pypi name", format!("pkg:pypi/{}", fill("A_.-", size))),
        13 => ("long nuget non-ascii name", format!("pkg:nuget/{}", fill("a\u{c6}", size / 2))),
        14 => ("invalid utf8 at the end", format!("pkg:t/{}%80", fill("a", size))),
        15 => ("long version", format!("pkg:t/n@{}", fill("1.", size))),
        16 => ("long qualifier value", format!("pkg:t/n?download_url={}", fill("https://example.org/a/", size))),
        17 => ("long subpath", format!("pkg:t/n#{}", fill("dir/", size))),
        18 => ("long non-ascii name", format!("pkg:t/{}", fill("\u{65e5}\u{672c}", size / 3))),
        19 => ("long namespace segment with an escaped slash", format!("pkg:t/{}%2Fb/n", fill("a", size))),
        _ => return None,
    })
}

fn drive_big(sink: &mut Sink, rng: &mut Rng, _n: usize) {
    let sizes = [64 * 1024usize, 256 * 1024, 1024 * 1024];
    let kind = |r: &Value| if r.get("panic").is_some() { "panic" } else if r["ok"] == json!(true) { "ok" } else { "err" };
    // the small twin of every family is an ordinary recorded parse, judged by TLC; a large member must fare alike
    let mut twin_kind: Vec<(&'static str, &'static str)> = Vec::new();
    let mut i = 0;
    while let Some((what, s)) = big_family(i, 200) {
        parse_all(sink, &s);
        let (g, _) = replay::parse_outcome::<String>(&s);
        let (t, _) = {
            #[cfg(feature = "pt")]
            {
                replay::parse_outcome::<purl::PackageType>(&s)
            }
            #[cfg(not(feature = "pt"))]
            {
                (Value::Null, None::<GenericPurl<String>>)
            }
        };
        twin_kind.push((kind(&g), if t.is_null() { "none" } else { kind(&t) }));
        let _ = what;
        i += 1;
    }
    for size in sizes {
        let mut inputs: Vec<(String, String, Option<(&'static str, &'static str)>)> = Vec::new();
        let mut i = 0;
        while let Some((what, s)) = big_family(i, size) {
            inputs.push((what.to_owned(), s, Some(twin_kind[i])));
            i += 1;
        }
        let mut g = String::new();
        while g.len() < size {
            g.push_str(&garbage(rng));
        }
        inputs.push(("concatenated garbage".into(), g, None));
        for (what, s, twin) in inputs {
            let t0 = std::time::Instant::now();
            let (g, gp) = replay::parse_outcome::<String>(&s);
            sink.emit(json!({"ev": "opaque", "what": what, "inst": "String", "len": s.len(), "kind": kind(&g), "ms": t0.elapsed().as_millis() as u64}));
            sink.ctx.case = json!({"what": what, "len": s.len()});
            if let Some((tg, _)) = twin {
                // no property makes acceptance depend on the length: a legal spelling stays legal (C02), a faulty one faulty (C05)
                let prop = if tg == "ok" { "C02" } else { "C05" };
                sink.ctx.check(prop, "a large member of a family fares like its 200-byte twin, which TLC judged", "String", kind(&g) == tg, &json!(tg), &json!(kind(&g)));
            }
            // C09 at this size: the printed form of what was accepted parses back to the same value
            if let Some(p) = &gp {
                let back = display(p).and_then(|c| GenericPurl::<String>::from_str(&c).ok());
                sink.ctx.check("C01", "canonical string of a large accepted input re-parses to an equal PURL", "String", back.as_ref() == Some(p), &Value::Null, &Value::Null);
            }
            // C16 has no length limit either: a string value deserialises exactly when the string parses
            #[cfg(feature = "sd")]
            {
                let js = serde_json::to_string(&s).expect("json string");
                let r = catch_unwind(AssertUnwindSafe(|| serde_json::from_str::<GenericPurl<String>>(&js)));
                let dk = match &r {
                    Err(_) => "panic",
                    Ok(Ok(_)) => "ok",
                    Ok(Err(_)) => "err",
                };
                sink.ctx.check("C16", "deserialize succeeds exactly when parsing succeeds (64 KiB - 1 MiB inputs)", "String", dk == kind(&g), &json!(kind(&g)), &json!(dk));
                if let Ok(Ok(p)) = r {
                    let back = serde_json::to_string(&p).ok().and_then(|t| serde_json::from_str::<GenericPurl<String>>(&t).ok());
                    sink.ctx.check("C16", "JSON round trip (64 KiB - 1 MiB inputs)", "String", back.as_ref() == Some(&p), &Value::Null, &Value::Null);
                }
            }
            #[cfg(feature = "pt")]
            {
                let t0 = std::time::Instant::now();
                let (t, _) = replay::parse_outcome::<purl::PackageType>(&s);
                sink.emit(json!({"ev": "opaque", "what": what, "inst": "Purl", "len": s.len(), "kind": kind(&t), "ms": t0.elapsed().as_millis() as u64}));
                if let Some((_, tt)) = twin {
                    let prop = if tt == "ok" { "C02" } else { "C05" };
                    sink.ctx.check(prop, "a large member of a family fares like its 200-byte twin, which TLC judged", "Purl", kind(&t) == tt, &json!(tt), &json!(kind(&t)));
                }
            }
        }
    }
    // the builder has no limit either (C09): a long value in every field, built, printed and parsed back
    for size in [64 * 1024usize, 256 * 1024] {
        let long: String = "ab".repeat(size / 2);
        let r = catch_unwind(AssertUnwindSafe(|| {
            GenericPurlBuilder::new("t".to_owned(), long.clone())
                .with_namespace(format!("{}/x", long))
                .with_version(long.clone())
                .with_subpath(format!("d/{}", long))
                .with_qualifier("download_url", long.clone())
                .and_then(|b| b.build())
        }));
        sink.ctx.case = json!({"what": "builder with long fields", "len": size});
        match r {
            Err(_) => {
                sink.ctx.check("C06", "no panic", "String", false, &Value::Null, &json!({"panic": true}));
            },
            Ok(Err(_)) => {
                sink.ctx.check("C09", "build succeeds for long field values", "String", false, &Value::Null, &Value::Null);
            },
            Ok(Ok(p)) => {
                let ok = p.name() == long && p.version() == Some(long.as_str()) && p.qualifiers().get("download_url") == Some(long.as_str());
                sink.ctx.check("C09", "accessors return the long values that were set", "String", ok, &Value::Null, &Value::Null);
                let back = display(&p).and_then(|c| GenericPurl::<String>::from_str(&c).ok());
                sink.ctx.check("C09", "string form of a long PURL parses back to the same fields", "String", back.as_ref() == Some(&p), &Value::Null, &Value::Null);
            },
        }
    }
}

const TYPE_NAMES: &[&str] = &["cargo", "gem", "golang", "maven", "npm", "nuget", "pypi"];
const TYPE_NOISE: &[&str] = &["", " ", "\u{0}", "s", "x", "-", "\u{17F}", "\u{212A}", "\u{131}", "\u{130}", "\u{FF41}", "\u{FF4D}", "\u{430}", "\u{3BF}", "\u{301}", "e", "n", "go", "rpm", "deb"];

#[cfg(feature = "pt")]
fn drive_type_strings(sink: &mut Sink, rng: &mut Rng, n: usize) {
    use purl::PackageType;
    for _ in 0..n {
        let base = ps(rng, TYPE_NAMES);
        let mut chars: Vec<char> = base.chars().collect();
        for c in chars.iter_mut() {
            if rng.chance(1, 3) {
                *c = c.to_ascii_uppercase();
            }
        }
        let mut s: String = chars.into_iter().collect();
        match rng.below(8) {
            0 | 1 => {},
            2 => s = mutate(rng, &s),
            3 => {
                let at = rng.below(s.chars().count() + 1);
                let mut v: Vec<char> = s.chars().collect();
                for (i, c) in ps(rng, TYPE_NOISE).chars().enumerate() {
                    v.insert(at + i, c);
                }
                s = v.into_iter().collect();
            },
            4 => {
                let mut v: Vec<char> = s.chars().collect();
                if !v.is_empty() {
                    let i = rng.below(v.len());
                    let subs: Vec<char> = LOOKALIKES.iter().filter(|(a, _)| a.eq_ignore_ascii_case(&v[i])).map(|(_, b)| *b).collect();
                    if !subs.is_empty() {
                        v[i] = *rng.pick(&subs);
                    }
                }
                s = v.into_iter().collect();
            },
            5 => s = format!("{}{}", s, ps(rng, TYPE_NAMES)),
            6 => s = garbage(rng),
            _ => {
                let mut v: Vec<char> = s.chars().collect();
                if !v.is_empty() {
                    v.remove(rng.below(v.len()));
                }
                s = v.into_iter().collect();
            },
        }
        let r = catch_unwind(AssertUnwindSafe(|| <PackageType as FromStr>::from_str(&s)));
        let res = match r {
            Err(_) => json!({"panic": true}),
            Ok(Err(_)) => json!({"some": false}),
            Ok(Ok(t)) => {
                let views_agree = t.to_string() == t.name() && AsRef::<str>::as_ref(&t) == t.name() && <&'static str>::from(t) == t.name() && t.package_type() == t.name();
                json!({"some": true, "v": cps(t.name()), "views_agree": views_agree})
            },
        };
        sink.emit(json!({"ev": "tlookup", "s": cps(&s), "res": res}));
    }
}

const COMB_PIECES: &[&str] = &["a", "b", "/", "/", ":", ":", "@", ".", "é", "%2F", " ", "", "x/y", "g:a"];

#[cfg(feature = "pt")]
fn comb_event(sink: &mut Sink, tn: &str, s: &str) {
    use purl::{PackageType, Purl};
    let t = <PackageType as FromStr>::from_str(tn).expect("known type");
    let r = catch_unwind(AssertUnwindSafe(|| {
        let b = Purl::builder_with_combined_name(t, s);
        let split = json!({"ns": cps(&b.parts.namespace), "name": cps(&b.parts.name)});
        let built = b.build();
        let (joined, inverse) = match &built {
            Ok(p) => {
                let j = p.combined_name().into_owned();
                let b2 = Purl::builder_with_combined_name(t, &j);
                (json!({"some": true, "x": cps(&j)}), json!({"ns": cps(&b2.parts.namespace), "name": cps(&b2.parts.name)}))
            },
            Err(_) => (json!({"some": false}), json!({})),
        };
        (split, for_tlc(&outcome::<PackageType, purl::PackageError>(Ok(built))), joined, inverse)
    }));
    match r {
        Err(_) => sink.emit(json!({"ev": "comb", "t": cps(tn), "s": cps(s), "panic": true})),
        Ok((split, out, joined, inverse)) => sink.emit(json!({"ev": "comb", "t": cps(tn), "s": cps(s), "split": split, "out": out,
                                                               "joined": joined, "inverse": inverse, "lc": lc_table(&[s])})),
    }
}

#[cfg(feature = "pt")]
fn drive_combined(sink: &mut Sink, rng: &mut Rng, n: usize) {
    for _ in 0..n {
        let tn = ps(rng, TYPE_NAMES);
        let mut s = String::new();
        for _ in 0..rng.below(7) {
            s.push_str(ps(rng, COMB_PIECES));
        }
        comb_event(sink, tn, &s);
    }
}

/// One builder call sequence as a `bseq` event (generic: String; typed: PackageType), with the parse of its printed form.
fn emit_bseq(sink: &mut Sink, typed: bool, ops: Vec<Value>, refs: &[&str]) {
    let (out, back) = if typed {
        #[cfg(feature = "pt")]
        {
            let (o, c) = bseq_run::<purl::PackageType>(&ops);
            (o, c.as_ref().map(|c| replay::parse_outcome::<purl::PackageType>(c).0))
        }
        #[cfg(not(feature = "pt"))]
        {
            (Value::Null, None)
        }
    } else {
        let (o, c) = bseq_run::<String>(&ops);
        // C13: the same calls with the other built-in type parameters (a borrowed Cow needs a 'static string: leaked)
        sink.ctx.case = json!({"ops": ops});
        let (o2, _) = bseq_run::<std::borrow::Cow<'static, str>>(&ops);
        sink.ctx.check_eq("C13", "String and Cow::Owned build alike", "CowOwned", &o, &o2);
        let (o3, _) = bseq_run_borrowed(&ops);
        sink.ctx.check_eq("C13", "String and Cow::Borrowed build alike", "CowBorrowed", &o, &o3);
        #[cfg(feature = "ss")]
        {
            let (o4, _) = bseq_run::<purl::SmallString>(&ops);
            sink.ctx.check_eq("C13", "String and SmallString build alike", "SmallString", &o, &o4);
        }
        (o, c.as_ref().map(|c| replay::parse_outcome::<String>(c).0))
    };
    if typed && !cfg!(feature = "pt") {
        return;
    }
    sink.emit(json!({"ev": "bseq", "sh": if typed { "typed" } else { "generic" }, "ops": ops, "out": for_tlc(&out),
                     "back": back.map(|b| for_tlc(&b)).unwrap_or(json!({"none": true})), "lc": lc_table(refs)}));
}

/// Systematic sweeps over two-character contexts that random strings rarely hit:
///  - every `%XY` with X, Y from class representatives (thorough: all printable ASCII) in every decoded component;
///  - every ASCII byte (and some non-ASCII characters) as a checksum digest character, raw and escaped, parsed and built.
fn drive_escapes(sink: &mut Sink, _rng: &mut Rng, n: usize) {
    let reps: Vec<char> = if n >= 2 { (0x20u8..0x7f).map(|b| b as char).collect() } else { "09afAFgGzZ+-. %/_:xX\u{0}".chars().collect() };
    for x in &reps {
        for y in &reps {
            let e = format!("%{}{}", x, y);
            if n >= 2 {
                parse_all(sink, &format!("pkg:t/a{}b", e));
            } else {
                for s in [format!("pkg:t/a{}b", e), format!("pkg:t/a{}b/n", e), format!("pkg:t/n@1{}", e), format!("pkg:t/n?k=v{}", e), format!("pkg:t/n#s{}t", e)] {
                    parse_all(sink, &s);
                }
            }
        }
    }
    // an escaped escape stays an escape after ONE decoding: %25XY (and %2525XY) in every component
    for xy in ["2F", "2f", "2E", "2e", "2E%252E", "41", "25", "00", "7F", "C3%25A9", "40", "3F", "23", "26", "3D"] {
        for pre in ["%25", "%2525"] {
            let e = format!("{}{}", pre, xy);
            for s in [format!("pkg:t/a{e}b"), format!("pkg:t/a{e}b/n"), format!("pkg:t/{e}/n"), format!("pkg:t/n@1{e}"), format!("pkg:t/n?k=v{e}"),
                      format!("pkg:t/n#s{e}t"), format!("pkg:t/n#a/{e}/b"), format!("pkg:golang/x/{e}/n"), format!("pkg:t/n?checksum=a:{e}")] {
                parse_all(sink, &s);
            }
        }
    }
    // spellings of separators and white space borrowed from other notations (XML, HTML, form encoding, shells,
    // Windows paths): none of them means anything in a PURL
    for x in ["&amp;", "&#38;", "&lt;", "&quot;", ";", "&&", "&;", "+", "%20", "\\", "\\/", "%5C", "%5c", "/./", "/../", "\t", "\n", "\r\n", " ", "%0A", "%09", "<", ">", "\"", "'", "`",
              "{", "}", "|", "^", "[", "]", "~", "$", "!", "*", "(", ")", ",", "%2C", "=", "==", ":", "::", "@@", "??", "##", "%", "%%", "%25%25"] {
        for s in [format!("pkg:t/n?a=1{x}b=2"), format!("pkg:t/n?a=1&b{x}=2"), format!("pkg:t/a{x}b/n"), format!("pkg:t/n{x}m@1"), format!("pkg:t/n@1{x}2"),
                  format!("pkg:t/n#s{x}t"), format!("pkg:t{x}/n"), format!("pkg{x}:t/n"), format!("pkg:{x}t/n"), format!("pkg:t/n?checksum=a:00{x}b:11")] {
            parse_all(sink, &s);
        }
    }
    let mut digits: Vec<char> = (0u8..0x80).map(|b| b as char).collect();
    digits.extend(['\u{80}', '\u{e9}', '\u{ff}', '\u{130}', '\u{660}', '\u{ff10}', '\u{ff21}', '\u{1d7d8}']);
    for c in digits {
        let mut esc = String::new();
        let mut buf = [0u8; 4];
        for b in c.encode_utf8(&mut buf).bytes() {
            esc.push_str(&format!("%{:02X}", b));
        }
        let raw_ok = !matches!(c, '&' | '#' | '%');
        for d in [format!("{c}{c}"), format!("0{c}"), format!("{c}0"), format!("{c}")] {
            if raw_ok {
                parse_all(sink, &format!("pkg:t/n?checksum=a:{}", d));
            }
            let v = format!("a:{}", d);
            emit_bseq(sink, false, vec![json!(["new", cps("t"), cps("n")]), json!(["with_qualifier", cps("checksum"), cps(&v)])], &[&v]);
        }
        parse_all(sink, &format!("pkg:t/n?checksum=a:{}{}", esc, esc));
        parse_all(sink, &format!("pkg:t/n?checksum=a:0{}", esc));
    }
}

// The vocabulary of real package URLs: a change that special-cases one well-known key, value, version shape or
// naming convention of one ecosystem is invisible to generators that draw from small abstract alphabets.
const V_TYPES: &[&str] = &["generic", "maven", "npm", "golang", "pypi", "nuget", "cargo", "gem", "deb", "docker", "github", "oci", "rpm", "conan", "hex", "swift"];
// colloquial names, prefixes and extensions of the seven type names: none of them is a type the typed PURL knows,
// and for the type-agnostic PURL each is just another type string (for every type parameter alike)
const V_ALIASES: &[&str] = &["rubygems", "go", "Go", "pip", "crates.io", "crate", "mvn", "maven2", "Maven-Central", "node", "nodejs", "NPMjs", "python", "PyPI.org",
                             "dotnet", "NU", "nuget.org", "gem-src", "Cargo.toml", "golang.org", "np", "carg0"];
const V_NS: &[&str] = &["", "org.apache.commons", "@angular", "github.com/go-redis/redis", "library", "debian", "Some.Group", "gopkg.in", "k8s.io/api"];
const V_NAMES: &[&str] = &["io", "cli", "v8", "v2", "v10", "redis", "Django_.-pkg", "Newtonsoft.Json", "yaml.v3", "commons-io", "curl", "jar", "type",
                           "serde_json", "requests[security]", "BurntSushi", "!burnt!sushi"];
const V_VERS: &[&str] = &["", "1.0.0", "2.0.0-RC1", "1.0-SNAPSHOT", "V2", "v8.11.5", "2", "10", "1a", "1.2.0", "1.10.0", "1.1rc.0", "1.0.0-rc.1+build.5", "sha256:abcd", "latest", "v2", "7.50.3-1"];
const V_KEYS: &[&str] = &["repository_url", "download_url", "vcs_url", "file_name", "checksum", "arch", "os", "distro", "type", "classifier", "platform",
                          "ext", "packaging", "epoch", "tag", "channel", "subdir", "build", "Type", "VCS_URL"];
const V_VALS: &[&str] = &["jar", "pom", "sources", "war", "zip", "linux", "amd64", "x86_64", "noarch", "java", "ruby", "1", "true",
                          "git+https://git.fsfe.org/dxtr/bitwarderl@cc55108da32", "https://repo.example.org/a?b=c&d=e#f", "docker.io/library/debian",
                          "sha1:ad9503c3e994a4f611a4892f2e67ac82df727086", "sha256:AABB,md5:00ff", "sha512-256:a1,sha512:a0", "debian-11", " ",
                          // the ecosystems' default registries (a "helpful" normalisation would drop them)
                          "https://registry.npmjs.org", "https://repo.maven.apache.org/maven2", "https://pypi.org/simple", "https://crates.io",
                          "https://rubygems.org", "https://proxy.golang.org", "https://api.nuget.org/v3/index.json", "docker.io", "hub.docker.com"];
const V_SUBS: &[&str] = &["", "src/main", "cmd/tool/v2", "googleapis/api/annotations", "v2"];
const V_COMBINED: &[&str] = &["requests[security]", "a[b]", "uvicorn[standard]==0.20", "name;python_version<'3.8'", "github.com/!burnt!sushi/toml", "example.com/!x", "!a/b", "a/!b", "github.com/go-redis/redis/v8", "a/v2", "a/v10/b", "example.com/m/v10", "gopkg.in/yaml.v3", "k8s.io/api/v0", "@angular/cli", "@types%2Fnode",
                              "@types/node/v2", "org.apache.commons:io", "g:a:v2", "org.apache:commons/io", "libc", "v2", "/v2", "a/v2/"];

fn drive_vocab(sink: &mut Sink, _rng: &mut Rng, n: usize) {
    let types: &[&str] = if n >= 2 { V_TYPES } else { &V_TYPES[..8] };
    let typed_of = |t: &str| TYPE_NAMES.contains(&t);
    let mut i = 0usize;
    // every type x key x value, the other components cycling through their lists
    for t in types {
        for k in V_KEYS {
            for v in V_VALS {
                i += 1;
                let (ns, name, ver, sub) = (V_NS[i % V_NS.len()], V_NAMES[i % V_NAMES.len()], V_VERS[i % V_VERS.len()], V_SUBS[i % V_SUBS.len()]);
                // as a string: the writer's side of C02 (raw wherever the grammar permits, separators of the value escaped)
                let esc = |x: &str| x.replace('%', "%25").replace('&', "%26").replace('#', "%23").replace('+', "%2B").replace(' ', "%20");
                let mut s = format!("pkg:{}/", t);
                if !ns.is_empty() {
                    s.push_str(&ns.replace('@', "%40"));
                    s.push('/');
                }
                s.push_str(name);
                if !ver.is_empty() {
                    s.push('@');
                    s.push_str(&esc(ver));
                }
                s.push_str(&format!("?{}={}", k, esc(v).replace('?', "%3F")));
                if !sub.is_empty() {
                    s.push('#');
                    s.push_str(sub);
                }
                parse_all(sink, &s);
                // and through the builder
                let ops = vec![json!(["new", cps(t), cps(name)]), json!(["with_namespace", cps(ns)]), json!(["with_version", cps(ver)]),
                               json!(["with_qualifier", cps(k), cps(v)]), json!(["with_subpath", cps(sub)])];
                emit_bseq(sink, typed_of(t), ops, &[ns, name, ver, v, sub]);
            }
        }
    }
    // every type x name x version (namespace cycling), no qualifiers
    for t in types {
        for name in V_NAMES {
            for ver in V_VERS {
                i += 1;
                let ns = V_NS[i % V_NS.len()];
                let s = format!("pkg:{}/{}{}{}{}", t, ns.replace('@', "%40"), if ns.is_empty() { "" } else { "/" }, name,
                                if ver.is_empty() { String::new() } else { format!("@{}", ver.replace('+', "%2B")) });
                parse_all(sink, &s);
                let ops = vec![json!(["new", cps(t), cps(name)]), json!(["with_namespace", cps(ns)]), json!(["with_version", cps(ver)])];
                emit_bseq(sink, typed_of(t), ops, &[ns, name, ver]);
            }
        }
    }
    // near-names of the seven types, with a few names and versions each
    for t in V_ALIASES {
        for name in &V_NAMES[..3] {
            for ver in &V_VERS[..3] {
                let s = format!("pkg:{}/{}{}", t, name, if ver.is_empty() { String::new() } else { format!("@{}", ver) });
                parse_all(sink, &s);
                let ops = vec![json!(["new", cps(t), cps(name)]), json!(["with_version", cps(ver)])];
                emit_bseq(sink, false, ops, &[name, ver]);
            }
        }
    }
    // combined names as the ecosystems write them
    #[cfg(feature = "pt")]
    for t in TYPE_NAMES {
        for c in V_COMBINED {
            comb_event(sink, t, c);
        }
    }
}

fn drive_pairs(sink: &mut Sink, rng: &mut Rng, n: usize, corpus: &[String]) {
    use std::hash::{Hash, Hasher};
    // a pool of values: corpus strings and near-collision mutations of them that parse
    let mut pool: Vec<GenericPurl<String>> = Vec::new();
    let mut tries = 0;
    while pool.len() < 400 && tries < 20000 {
        tries += 1;
        let base = rng.pick(corpus).clone();
        let s = if rng.chance(1, 3) { base } else { mutate(rng, &base) };
        if let Ok(p) = GenericPurl::<String>::from_str(&s) {
            pool.push(p);
        }
    }
    // families that differ in one component only, its text drawn from strings on which a "smart" comparison
    // (numeric, natural, case-folding, locale) and the plain one disagree
    const ORDER_TEXTS: &[&str] = &["2", "10", "1a", "01", "1", "1.2.0", "1.10.0", "1.1rc.0", "v2", "v10", "a", "B", "b", "ab", "a.b", "a-b", "a_b", "Z", "z", "é", "e", "", "1e1", "0x10", "١"];
    for x in ORDER_TEXTS {
        let e: String = x.bytes().map(|b| format!("%{:02X}", b)).collect();
        for s in [format!("pkg:generic/ns/name@{e}"), format!("pkg:generic/ns/x{e}@1"), format!("pkg:generic/n{e}/name@1"), format!("pkg:generic/ns/name@1#s{e}"),
                  format!("pkg:generic/ns/name@1?k={e}"), format!("pkg:t{x}/ns/name@1"), format!("pkg:generic/ns/name@1?k{x}=v&k=w")] {
            if let Ok(p) = GenericPurl::<String>::from_str(&s) {
                pool.push(p);
            }
        }
    }
    sink.ctx.case = json!({"pool": pool.len()});
    replay::check_pool(&mut sink.ctx, pool.clone());
    let h = |p: &GenericPurl<String>| {
        let mut st = std::collections::hash_map::DefaultHasher::new();
        p.hash(&mut st);
        st.finish()
    };
    for i in 0..n {
        let a = rng.pick(&pool).clone();
        // half of the pairs are near-collisions: the same value re-spelled, or one character away
        let b = match i % 4 {
            0 => GenericPurl::<String>::from_str(&a.to_string().replacen("pkg:", "pkg://", 1)).unwrap_or_else(|_| a.clone()),
            1 => {
                let m = mutate(rng, &a.to_string());
                GenericPurl::<String>::from_str(&m).unwrap_or_else(|_| rng.pick(&pool).clone())
            },
            _ => rng.pick(&pool).clone(),
        };
        let ord = |o: std::cmp::Ordering| match o {
            std::cmp::Ordering::Less => 2,
            std::cmp::Ordering::Equal => 0,
            std::cmp::Ordering::Greater => 1,
        };
        sink.emit(json!({"ev": "pair", "a": value_json(&a), "b": value_json(&b), "sa": cps(&a.to_string()), "sb": cps(&b.to_string()),
                         "eq": a == b, "hash_eq": h(&a) == h(&b), "cmp_ab": ord(a.cmp(&b)), "cmp_ba": ord(b.cmp(&a))}));
    }
}

/// Length sweep: every component at every length 0..=48 and around 64 / 128 / 256 / 1024 (inline vs heap
/// small strings, capacity computations), with a plain, an upper-case and an escape-needing last character;
/// 0..=40 qualifiers; parsed and built.
fn drive_lengths(sink: &mut Sink, _rng: &mut Rng, n: usize) {
    let mut lens: Vec<usize> = (0..=48).collect();
    lens.extend([63, 64, 65, 127, 128, 129, 255, 256, 257]);
    if n >= 2 {
        lens.extend([511, 512, 513, 1023, 1024, 1025]);      // (beyond that TLC needs half a minute per recorded parse)
    }
    for &l in &lens {
        for last in ["a", "A", " ", "é", "%41", "%2F", "/%2e%2E"] {
            let body = |unit: &str| -> String {
                if l == 0 {
                    String::new()
                } else {
                    format!("{}{}", unit.repeat(l - 1), last)
                }
            };
            let x = body("a");
            let mut strings = vec![
                format!("pkg:t/{}", x),
                format!("pkg:t/{}/n", x),
                format!("pkg:t/n@{}", x),
                format!("pkg:t/n?k={}", x),
                format!("pkg:t/n#{}", x),
                format!("pkg:t/n?checksum={}:00", x),
                format!("pkg:t/n?checksum=a:{}", body("0")),
                format!("pkg:nuget/{}", x),
                format!("pkg:pypi/{}", body("A_")),
                format!("pkg:maven/{}/n", x),
            ];
            if last == "a" || last == "A" {
                strings.push(format!("pkg:{}/n", x));
                strings.push(format!("pkg:t/n?{}=v", x));
                strings.push(format!("pkg:t/n?{}=v&{}=w", x, x.to_ascii_uppercase()));
            }
            for s in strings {
                parse_all(sink, &s);
            }
            // the same through the builder (generic and typed)
            if !last.contains('%') {
                for (t, typed) in [("t", false), ("nuget", true), ("maven", true)] {
                    if typed && !cfg!(feature = "pt") {
                        continue;
                    }
                    let ops = vec![json!(["new", cps(t), cps(&x)]), json!(["with_namespace", cps(&x)]), json!(["with_version", cps(&x)]),
                                   json!(["with_qualifier", cps("k"), cps(&x)]), json!(["with_subpath", cps(&x)])];
                    let refs = [x.as_str()];
                    let (out, back) = if typed {
                        #[cfg(feature = "pt")]
                        {
                            let (o, c) = bseq_run::<purl::PackageType>(&ops);
                            (o, c.as_ref().map(|c| replay::parse_outcome::<purl::PackageType>(c).0))
                        }
                        #[cfg(not(feature = "pt"))]
                        {
                            (Value::Null, None)
                        }
                    } else {
                        let (o, c) = bseq_run::<String>(&ops);
                        (o, c.as_ref().map(|c| replay::parse_outcome::<String>(c).0))
                    };
                    sink.emit(json!({"ev": "bseq", "sh": if typed { "typed" } else { "generic" }, "ops": ops, "out": for_tlc(&out),
                                     "back": back.map(|b| for_tlc(&b)).unwrap_or(json!({"none": true})), "lc": lc_table(&refs)}));
                }
            }
        }
    }
    // 0..=40 namespace / subpath segments (and as many again written as empty or dot pieces), then around 64 / 128 / 256
    let mut counts: Vec<usize> = (0..=40).collect();
    counts.extend([63, 64, 65, 127, 128, 129, 255, 256, 257]);
    if n >= 2 {
        counts.extend([300, 400]);      // (TLC needs minutes per recorded parse beyond a few hundred qualifiers)
    }
    let counts2 = counts.clone();
    for n in counts {
        let segs: Vec<String> = (0..n).map(|i| format!("s{}", i)).collect();
        let ns = segs.join("/");
        let noisy = segs.iter().map(|x| format!("{}//./", x)).collect::<String>();
        parse_all(sink, &format!("pkg:t/{}{}n", ns, if n > 0 { "/" } else { "" }));
        parse_all(sink, &format!("pkg:t/n#{}", ns));
        if n <= 129 {
            parse_all(sink, &format!("pkg:t/n#{}", noisy));
            parse_all(sink, &format!("pkg:golang/{}/n@v1#{}", noisy.replace("./", ""), noisy));
        }
    }
    // as many qualifiers, in descending key order in the input
    for n in counts2 {
        let quals: Vec<String> = (0..n).rev().map(|i| format!("k{:03}=v{}", i, i)).collect();
        let s = if n == 0 { "pkg:t/n".to_owned() } else { format!("pkg:t/n?{}", quals.join("&")) };
        parse_all(sink, &s);
        let algs: Vec<String> = (0..n).rev().map(|i| format!("A{:03}:0{}", i, i % 10)).collect();
        if n > 0 {
            parse_all(sink, &format!("pkg:t/n?checksum={}", algs.join(",")));
        }
    }
}

pub fn main(args: &[String]) {
    let Some(driver) = args.first() else {
        eprintln!("drive: missing driver name");
        std::process::exit(2)
    };
    let seed: u64 = arg_value(args, "--seed").and_then(|s| s.parse().ok()).unwrap_or(1);
    let n: usize = arg_value(args, "--n").and_then(|s| s.parse().ok()).unwrap_or(1000);
    let Some(out) = arg_value(args, "--out") else {
        eprintln!("drive: missing --out");
        std::process::exit(2)
    };
    let file = std::fs::File::create(&out).expect("create events file");
    let mut sink = Sink { out: std::io::BufWriter::new(file), n: 0, ctx: Ctx::new(), samples: Vec::new() };
    let mut rng = Rng::new(seed);
    // watchdog: a call that does not return within the limit is a C06 violation
    let current = std::sync::Arc::new(std::sync::Mutex::new(String::new()));
    crate::start_watchdog(std::time::Duration::from_secs(if driver == "big" { 900 } else { 90 }), current);
    // a panic that escapes a driver iteration (while projecting state) is a C06 failure; the run stops there
    let run = catch_unwind(AssertUnwindSafe(|| match driver.as_str() {
        "garbage" => drive_garbage(&mut sink, &mut rng, n),
        "corpus" => {
            let corpus = load_corpus(&arg_values(args, "--corpus"));
            drive_corpus(&mut sink, &mut rng, n, &corpus)
        },
        "scalars" => drive_scalars(&mut sink, &mut rng, n),
        "qual-ops" => drive_qual_ops(&mut sink, &mut rng, n),
        "checksum-ops" => drive_checksum_ops(&mut sink, &mut rng, n),
        "builder-ops" => drive_builder_ops(&mut sink, &mut rng, n),
        "big" => drive_big(&mut sink, &mut rng, n),
        "lengths" => drive_lengths(&mut sink, &mut rng, n),
        #[cfg(feature = "pt")]
        "type-strings" => drive_type_strings(&mut sink, &mut rng, n),
        #[cfg(feature = "pt")]
        "combined" => drive_combined(&mut sink, &mut rng, n),
        "vocab" => drive_vocab(&mut sink, &mut rng, n),
        "escapes" => drive_escapes(&mut sink, &mut rng, n),
        "pairs" => {
            let corpus = load_corpus(&arg_values(args, "--corpus"));
            drive_pairs(&mut sink, &mut rng, n, &corpus)
        },
        other => {
            eprintln!("unknown driver {other}");
            std::process::exit(2);
        },
    }));
    if run.is_err() {
        sink.ctx.check("C06", "library panicked while the driver projected a state", "-", false, &json!("value or error"), &json!({"panic": true}));
    }
    sink.out.flush().expect("flush events");
    crate::PROGRESS.store(u64::MAX, Ordering::Relaxed);
    let mut sum = sink.ctx.summary();
    sum["events"] = json!(sink.n);
    sum["samples"] = json!(sink.samples);
    println!("{}", sum);
}
