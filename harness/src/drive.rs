//! impl -> spec drivers (filled in below).
pub fn main(args: &[String]) {
    eprintln!("drive: not yet implemented {:?}", args);
    std::process::exit(2);
}
