//! purl-conform: binding between the TLA+ specification in /verif/spec and the purl
//! library in /repo/purl.
//!
//!   purl-conform replay <file> [--events F] [--serde] [--transcript F]
//!       execute cases printed by TLC (raw TLC output or ndjson), compare
//!   purl-conform drive <driver> --seed N --n N --out F
//!       exercise the library and record one ndjson event per public call
//!
//! stdout: ndjson lines {"t":"fail",..} and one final {"t":"sum",..}.
//! exit: 0 ran to completion (failures are data), 2 usage/tool error, 3 watchdog.

mod drive;
mod proj;
mod replay;
mod shapes;
mod strser;

use std::io::{BufRead, BufReader};
use std::sync::atomic::{AtomicU64, Ordering};
use std::sync::Arc;
use std::time::{Duration, Instant};

use serde_json::{json, Value};

pub static PROGRESS: AtomicU64 = AtomicU64::new(0);

/// A case line is either plain JSON or a TLC `PrintT(<<"CASE", ToJson(..)>>)` line.
fn decode_line(line: &str) -> Option<Value> {
    let line = line.trim_end();
    if let Some(rest) = line.strip_prefix("<<\"CASE\", \"") {
        let body = rest.strip_suffix("\">>")?;
        let mut out = String::with_capacity(body.len());
        let mut it = body.chars();
        while let Some(c) = it.next() {
            if c == '\\' {
                if let Some(n) = it.next() {
                    out.push(n);
                }
            } else {
                out.push(c);
            }
        }
        serde_json::from_str(&out).ok()
    } else if line.starts_with('{') {
        serde_json::from_str(line).ok()
    } else {
        None
    }
}

pub fn start_watchdog(limit: Duration, current: Arc<std::sync::Mutex<String>>) {
    std::thread::spawn(move || {
        let mut last = PROGRESS.load(Ordering::Relaxed);
        let mut since = Instant::now();
        loop {
            std::thread::sleep(Duration::from_millis(250));
            let now = PROGRESS.load(Ordering::Relaxed);
            if now != last {
                last = now;
                since = Instant::now();
            } else if since.elapsed() > limit && now != u64::MAX {
                let case = current.lock().map(|s| s.clone()).unwrap_or_default();
                let case: Value = serde_json::from_str(&case).unwrap_or(Value::Null);
                println!("{}", json!({"t": "fail", "prop": "C06", "check": "terminates (watchdog)", "inst": "-",
                                      "line": now, "exp": "returns", "got": "no progress", "case": case}));
                println!("{}", json!({"t": "sum", "watchdog": true, "cases": now, "asserts": {"C06": 1}, "fails": {"C06": 1}, "counters": {}, "samples": []}));
                std::process::exit(3);
            }
        }
    });
}

fn arg_value(args: &[String], name: &str) -> Option<String> {
    args.iter().position(|a| a == name).and_then(|i| args.get(i + 1).cloned())
}

fn main() {
    std::panic::set_hook(Box::new(|_| {}));
    let args: Vec<String> = std::env::args().collect();
    if args.len() < 2 {
        eprintln!("usage: purl-conform replay|drive ...");
        std::process::exit(2);
    }
    match args[1].as_str() {
        "replay" => {
            let path = args.get(2).cloned().unwrap_or_else(|| {
                eprintln!("replay: missing file");
                std::process::exit(2)
            });
            let mut ctx = replay::Ctx::new();
            if let Some(p) = arg_value(&args, "--events") {
                ctx.events = Some(std::io::BufWriter::new(std::fs::File::create(p).expect("create events file")));
            }
            if let Some(p) = arg_value(&args, "--transcript") {
                ctx.transcript = Some(std::io::BufWriter::new(std::fs::File::create(p).expect("create transcript file")));
            }
            if let Some(n) = arg_value(&args, "--max-fails") {
                ctx.max_fail_lines = n.parse().unwrap_or(40);
            }
            let opts = replay::Opts { serde: args.iter().any(|a| a == "--serde") };
            ctx.serde = opts.serde;
            let current = Arc::new(std::sync::Mutex::new(String::new()));
            start_watchdog(Duration::from_secs(90), current.clone());
            let file = std::fs::File::open(&path).unwrap_or_else(|e| {
                eprintln!("replay: cannot open {}: {}", path, e);
                std::process::exit(2)
            });
            for line in BufReader::with_capacity(1 << 20, file).lines() {
                let line = line.expect("read line");
                let Some(case) = decode_line(&line) else { continue };
                ctx.line += 1;
                PROGRESS.store(ctx.line as u64, Ordering::Relaxed);
                if let Ok(mut c) = current.lock() {
                    c.clear();
                    c.push_str(&case.to_string());
                }
                ctx.case = case.clone();
                // every library call is made under catch_unwind where its outcome is compared; this outer
                // guard catches a panic that escapes while the harness builds a pre-state or projects a result
                let r = std::panic::catch_unwind(std::panic::AssertUnwindSafe(|| replay::run_case(&mut ctx, &case, &opts)));
                if r.is_err() {
                    ctx.check("C06", "library panicked while a pre-state was built or a result was projected", "-", false,
                              &json!("value or error"), &json!({"panic": true}));
                }
            }
            replay::finish_pool(&mut ctx);
            PROGRESS.store(u64::MAX, Ordering::Relaxed);
            println!("{}", ctx.summary());
        },
        "drive" => drive::main(&args[2..]),
        _ => {
            eprintln!("unknown subcommand {}", args[1]);
            std::process::exit(2);
        },
    }
}
