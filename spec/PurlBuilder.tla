---------------------------- MODULE PurlBuilder ----------------------------
(***************************************************************************)
(* GenericPurlBuilder's setters (builder.rs:32-187) as data: an op is a    *)
(* tuple <<name, args...>>, Apply(b, op) is the builder after the call, or *)
(* the error with which the call consumed the builder.                     *)
(* Next to it the history the properties talk about: Track records what    *)
(* was last set per field, Expected says - from that history alone - what  *)
(* build() must return (C09).                                              *)
(***************************************************************************)
EXTENDS PurlParse

REPO == <<114,101,112,111,115,105,116,111,114,121,95,117,114,108>>      \* "repository_url"

\* Checksum built by a sequence of insert_raw(alg, hex) calls, then TryFrom<Checksum> for
\* SmallString (well_known.rs:130): entries keyed by lower-cased algorithm, later wins.
RECURSIVE CkRawInserts(_, _, _)
CkRawInserts(es, acc, tab) == IF es = <<>> THEN acc
                              ELSE CkRawInserts(Tail(es), QInsert(acc, LowerS(es[1][1], tab), es[1][2]), tab)
CkTypedText(es, tab) == CkText(CkRawInserts(es, <<>>, tab))

\* "edit_*" ops are direct writes to the public fields builder.package_type / builder.parts.*
Field(op) == CASE op[1] \in {"with_package_type", "edit_type"} -> "type"
               [] op[1] \in {"with_namespace", "without_namespace", "edit_ns"} -> "ns"
               [] op[1] \in {"with_name", "edit_name"} -> "name"
               [] op[1] \in {"with_version", "without_version"} -> "ver"
               [] op[1] \in {"with_subpath", "without_subpath"} -> "sub"
               [] OTHER -> "quals"
\* the qualifier key an op touches ("*" = all)
QKeyOf(op) == CASE op[1] \in {"with_qualifier", "without_qualifier", "edit_qual"} -> ALowerS(op[2])
                [] op[1] \in {"with_typed_repo", "without_typed_repo"} -> REPO
                [] op[1] \in {"try_with_typed_checksum", "without_typed_checksum"} -> CHECKSUM
                [] OTHER -> <<42>>

Ok(b) == [ok |-> TRUE, b |-> b]
SetP(b, f, x) == Ok([b EXCEPT !.parts[f] = x])
Apply(b, op, tab) ==
  CASE op[1] \in {"with_package_type", "edit_type"} -> Ok([b EXCEPT !.st = op[2]])
    [] op[1] \in {"with_namespace", "edit_ns"} -> SetP(b, "ns", op[2])
    [] op[1] = "edit_name" -> SetP(b, "name", op[2])
    \* parts.qualifiers.insert(k, v) with the Result ignored: an invalid key changes nothing
    [] op[1] = "edit_qual" -> IF ValidKey(op[2]) THEN SetP(b, "quals", QInsert(b.parts.quals, ALowerS(op[2]), op[3])) ELSE Ok(b)
    [] op[1] = "without_namespace" -> SetP(b, "ns", <<>>)
    [] op[1] = "with_name" -> SetP(b, "name", op[2])
    [] op[1] = "with_version" -> SetP(b, "ver", op[2])
    [] op[1] = "without_version" -> SetP(b, "ver", <<>>)
    [] op[1] = "with_subpath" -> SetP(b, "sub", op[2])
    [] op[1] = "without_subpath" -> SetP(b, "sub", <<>>)
    [] op[1] = "with_qualifier" ->
         IF ValidKey(op[2]) THEN SetP(b, "quals", QInsert(b.parts.quals, ALowerS(op[2]), op[3]))
         ELSE Err("InvalidQualifier")
    [] op[1] = "without_qualifier" ->
         IF ValidKey(op[2]) THEN SetP(b, "quals", QRemove(b.parts.quals, ALowerS(op[2]))) ELSE Ok(b)
    [] op[1] = "without_qualifiers" -> SetP(b, "quals", <<>>)
    [] op[1] = "with_typed_repo" -> SetP(b, "quals", QInsert(b.parts.quals, REPO, op[2]))
    [] op[1] = "without_typed_repo" -> SetP(b, "quals", QRemove(b.parts.quals, REPO))
    [] op[1] = "try_with_typed_checksum" ->
         LET t == CkTypedText(op[2], tab) IN
         IF t.ok THEN SetP(b, "quals", QInsert(b.parts.quals, CHECKSUM, t.s)) ELSE Err("InvalidQualifier")
    [] op[1] = "without_typed_checksum" -> SetP(b, "quals", QRemove(b.parts.quals, CHECKSUM))

(***************************************************************************)
(* History: last = [type, ns, name, ver, sub, q] where q is a function     *)
(* from lower-case keys to the value last set (removed keys leave it).     *)
(***************************************************************************)
FnSet(f, k, v) == [x \in DOMAIN f \cup {k} |-> IF x = k THEN v ELSE f[x]]
FnDel(f, k) == [x \in DOMAIN f \ {k} |-> f[x]]
EmptyFn == [x \in {} |-> <<>>]
Track(last, op, tab) ==
  CASE op[1] \in {"with_package_type", "edit_type"} -> [last EXCEPT !.type = op[2]]
    [] op[1] \in {"with_namespace", "edit_ns"} -> [last EXCEPT !.ns = op[2]]
    [] op[1] = "edit_name" -> [last EXCEPT !.name = op[2]]
    [] op[1] = "edit_qual" -> IF ValidKey(op[2]) THEN [last EXCEPT !.q = FnSet(last.q, ALowerS(op[2]), op[3])] ELSE last
    [] op[1] = "without_namespace" -> [last EXCEPT !.ns = <<>>]
    [] op[1] = "with_name" -> [last EXCEPT !.name = op[2]]
    [] op[1] = "with_version" -> [last EXCEPT !.ver = op[2]]
    [] op[1] = "without_version" -> [last EXCEPT !.ver = <<>>]
    [] op[1] = "with_subpath" -> [last EXCEPT !.sub = op[2]]
    [] op[1] = "without_subpath" -> [last EXCEPT !.sub = <<>>]
    [] op[1] = "with_qualifier" -> [last EXCEPT !.q = FnSet(last.q, ALowerS(op[2]), op[3])]
    [] op[1] = "without_qualifier" -> [last EXCEPT !.q = FnDel(last.q, ALowerS(op[2]))]
    [] op[1] = "without_qualifiers" -> [last EXCEPT !.q = EmptyFn]
    [] op[1] = "with_typed_repo" -> [last EXCEPT !.q = FnSet(last.q, REPO, op[2])]
    [] op[1] = "without_typed_repo" -> [last EXCEPT !.q = FnDel(last.q, REPO)]
    [] op[1] = "try_with_typed_checksum" -> [last EXCEPT !.q = FnSet(last.q, CHECKSUM, CkTypedText(op[2], tab).s)]
    [] op[1] = "without_typed_checksum" -> [last EXCEPT !.q = FnDel(last.q, CHECKSUM)]
LastOfNew(t, name) == [type |-> t, ns |-> <<>>, name |-> name, ver |-> <<>>, sub |-> <<>>, q |-> EmptyFn]
\* the builder is exactly what was last set
Faithful(b, last) ==
  /\ b.st = last.type /\ b.parts.ns = last.ns /\ b.parts.name = last.name
  /\ b.parts.ver = last.ver /\ b.parts.sub = last.sub
  /\ QKeys(b.parts.quals) = DOMAIN last.q
  /\ \A k \in DOMAIN last.q : QGet(b.parts.quals, k) = last.q[k]
  /\ QSorted(b.parts.quals)

(***************************************************************************)
(* C09 from the history alone: when must build() succeed, and with what.   *)
(***************************************************************************)
ExpectedOk(shape, last, tab) ==
  /\ last.name # <<>>
  /\ IF shape.kind = "generic" THEN ValidType(last.type)
     ELSE (last.type = MAVEN => HasNsSegment(last.ns))
  /\ (CHECKSUM \in DOMAIN last.q /\ last.q[CHECKSUM] # <<>>) => CkCanon(last.q[CHECKSUM], tab).ok
ExpectedValue(shape, last, tab) ==
  LET keys == {k \in DOMAIN last.q : last.q[k] # <<>>}
      val(k) == IF k = CHECKSUM THEN CkCanon(last.q[k], tab).s ELSE last.q[k]
      ks == SortStrs(keys)
  IN [type |-> IF shape.kind = "generic" THEN ALowerS(last.type) ELSE last.type,
      ns |-> last.ns,
      name |-> IF shape.kind = "typed" /\ last.type = PYPI THEN PypiName(last.name, tab)
               ELSE IF shape.kind = "typed" /\ last.type = NUGET THEN NugetName(last.name, tab) ELSE last.name,
      ver |-> last.ver,
      quals |-> [i \in 1..Len(ks) |-> <<ks[i], val(ks[i])>>],
      sub |-> last.sub]

KeepSegs(x, dots) == Join(SelectSeq(Split(x, SLASH), LAMBDA g : g # <<>> /\ ~(dots /\ DotSeg(g))), SLASH)
DropInsig(v) == [v EXCEPT !.ns = KeepSegs(v.ns, FALSE), !.sub = KeepSegs(v.sub, TRUE)]
=============================================================================
