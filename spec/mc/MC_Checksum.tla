----------------------------- MODULE MC_Checksum -----------------------------
(***************************************************************************)
(* CHECKSUM suite (C12, C06): the typed checksum map over algorithm names   *)
(* {a, A, a1, "a:b", AE-acute, Dz-titlecase, empty} and hex texts {empty, 00,*)
(* 0A, 0a, xx, 0}; every op from every reachable map with at most K entries;*)
(* and, for every well-formed map, every spelling (entry order x letter     *)
(* case) of its text inside a PURL.                                         *)
(***************************************************************************)
EXTENDS Checksum, PurlGrammar, Json, TLCExt
CONSTANTS K

\* a  A  a1 (prefix + digit: sorts before "a:" as text, after "a" as name)  a:b  A-E-acute (ASCII capital before a
\* non-ASCII capital)  Dz-titlecase  empty;  thorough adds b and E-acute
Algs == {<<97>>, <<65>>, <<97,49>>, <<97,58,98>>, <<65,201>>, <<233,201>>, <<201,65>>, <<453>>, <<>>} \cup (IF K >= 3 THEN {<<98>>, <<201>>} ELSE {})
Hexes == {<<>>, <<48,48>>, <<48,65>>, <<48,97>>, <<120,120>>, <<48>>}
ByteSeqs == {<<>>, <<0>>, <<10, 255>>}
Texts == {<<97,58,48,48,44,97,58,102,102>>, <<>>, <<97,58,48,48>>, <<66,58,48,65,44,97,58,102,70>>, <<97,58,48,48,44,65,58,49,49>>, <<122,122>>, <<97,58,98,58,48,48>>, <<58>>}
Ops == {<<"insert_raw", a, h>> : a \in Algs, h \in Hexes}
       \cup {<<"insert_bytes", a, b>> : a \in Algs, b \in ByteSeqs}
       \cup {<<n, a>> : n \in {"remove", "get_raw", "get_bytes"}, a \in Algs}
       \cup {<<"entries">>, <<"to_text">>}
       \cup {<<"from_text", t>> : t \in Texts}

VARIABLES algs
Init == algs = EmptyFn
Next == \E op \in Ops : LET r == CkApply(algs, op, LowerTab) IN
          /\ algs' = r.algs
          /\ PrintT(<<"CASE", ToJson([k |-> "ckop", pre |-> CkPairs(algs), op |-> op, res |-> r.res, post |-> CkPairs(r.algs)])>>)
Spec == Init /\ [][Next]_algs
Small == Cardinality(DOMAIN algs) <= K

\* ---- C12 on the model
WellFormed == \A k \in DOMAIN algs : HexOk(algs[k]) /\ ~Contains(k, COMMA)
C12_OrderIndependent == \A e \in Enumerations(algs) : ToTextVia(e) = ToText(algs)
C12_TextRoundTrip == (WellFormed /\ DOMAIN algs # {}) =>
     LET t == ToText(algs) IN
     /\ t.ok
     /\ LET p == CkParse(t.s, LowerTab) IN p.ok /\ p.a = [i \in 1..Len(CkPairs(algs)) |-> <<CkPairs(algs)[i][1], ALowerS(CkPairs(algs)[i][2])>>]
     /\ CkCanon(t.s, LowerTab) = t                        \* the text is a fixpoint of parse + serialise
     /\ CkWellFormed(t.s)                                 \* and has the C04 shape
C12_KeysLower == \A k \in DOMAIN algs : LowerS(k, LowerTab) = k
C12_BytesRoundTrip == \A b \in ByteSeqs : HexDec(HexEnc(b)) = [ok |-> TRUE, bytes |-> b]
C06_EmptyText == ToText(EmptyFn) = [ok |-> TRUE, s |-> <<>>]

\* ---- spellings of the text inside a PURL: entry order x case of algorithm / hex
SpellEntry(e, up) == (IF up THEN AUpperS(e[1]) ELSE e[1]) \o <<COLON>> \o (IF up THEN AUpperS(e[2]) ELSE e[2])
\* alt = TRUE alternates the letter case from entry to entry, alt = FALSE keeps it: all-lower-case mis-ordered texts
\* ("a1:00,a:0a" - already canonical but for the order) exist only with alt = FALSE (seeded C12-m10 was missed without it)
RECURSIVE SpellEnum(_, _, _)
SpellEnum(e, up, alt) == IF e = <<>> THEN <<>> ELSE SpellEntry(e[1], up) \o (IF Len(e) > 1 THEN <<COMMA>> ELSE <<>>) \o SpellEnum(Tail(e), IF alt THEN ~up ELSE up, alt)
AsciiAlgs == \A k \in DOMAIN algs : IsAscii(k) /\ k # <<>>
PurlOf(spelling) == PKG \o <<116,47,110,63,67,104,101,99,107,83,117,109,61>> \o spelling      \* pkg:t/n?CheckSum=
EmitSpellings == (Small /\ WellFormed /\ DOMAIN algs # {}) =>
     \A e \in Enumerations(algs) : \A up \in BOOLEAN : \A alt \in BOOLEAN :
        LET s == PurlOf(SpellEnum(e, up, alt)) IN
        /\ Agrees(ParseF(s, Generic, LowerTab), Judge(s, Generic, LowerTab))
        /\ ParseF(s, Generic, LowerTab).ok /\ QGet(ParseF(s, Generic, LowerTab).v.quals, CHECKSUM) = ToText(algs).s
        /\ PrintT(<<"CASE", ToJson([k |-> "parse", s |-> s, gj |-> Judge(s, Generic, LowerTab), go |-> Outcome(ParseF(s, Generic, LowerTab)),
                                     tj |-> Judge(s, Typed, LowerTab), to |-> Outcome(ParseF(s, Typed, LowerTab))])>>)
=============================================================================
