CONSTANTS
  N = 5
  SUITE = "sep"
INIT Init
NEXT Next
INVARIANTS C02C05_Generic C02C05_Typed C01_RoundTrip C03_Render C04_Valid C10_Rebuild C07_Structure C08_TypedVsGeneric C08_UnknownType Emit
CHECK_DEADLOCK FALSE
