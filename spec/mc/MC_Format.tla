------------------------------ MODULE MC_Format ------------------------------
(***************************************************************************)
(* FORMAT suite (C03, C09): one component position at a time holds a       *)
(* character c or a pair c1 c2; the value goes through build(), Display    *)
(* and back through the parser.                                            *)
(*   MODE = "single": c over 0..127 and non-ASCII representatives          *)
(*   MODE = "pairs" : c1 c2 over a set of class representatives            *)
(*   MODE = "allpairs": c1 c2 over all of 0..127                           *)
(* ctx = "bare": the component is exactly the content, other optional      *)
(* parts absent; ctx = "full": content wrapped in x..y, all parts present. *)
(***************************************************************************)
EXTENDS PurlGrammar, PurlBuilder, Json, TLCExt
CONSTANT MODE

NonAscii == {128, 133, 159, 160, 173, 233, 255, 256, 453, 769, 2047, 2048, 8232, 8364, 55295, 57344, 65279, 65533, 65535, 65536, 128512, 917505, 1114111}
PairReps == {0, 9, 31, 32, 34, 35, 37, 38, 43, 46, 47, 58, 60, 61, 62, 63, 64, 65, 96, 97, 123, 125, 126, 127, 233, 8364}
\* a few longer contents: a literal "%XX" (must come out as %25XX), "%" before a non-hex, dots, a separator sandwich
Longer == {<<37,52,49>>, <<37,50,102>>, <<37,122,122>>, <<37,37,50,70>>, <<46,46>>, <<46,46,46>>, <<47,47,47>>, <<97,47,47,47,98>>, <<64,63,35,64>>}
Contents == CASE MODE = "single" -> {<<c>> : c \in (0..127) \cup NonAscii} \cup Longer
              [] MODE = "pairs" -> {<<a, b>> : a \in PairReps, b \in PairReps}
              [] MODE = "allpairs" -> {<<a, b>> : a \in 0..127, b \in 0..127}
Pos == {"ns", "name", "ver", "qv", "sub"}

VARIABLES pos, content, ctx
vars == <<pos, content, ctx>>
Init == pos \in Pos /\ content \in Contents /\ ctx \in {"bare", "full"}
Next == UNCHANGED vars

X == IF ctx = "bare" THEN content ELSE <<120>> \o content \o <<121>>
Other(p, dflt) == IF pos = p THEN X ELSE IF ctx = "bare" THEN <<>> ELSE dflt
Parts == [ns |-> Other("ns", <<97>>),
          name |-> IF pos = "name" THEN X ELSE <<110>>,
          ver |-> Other("ver", <<49>>),
          \* "full": three qualifiers whose order separates lower- from upper-case folding ('_' < 'a' but '_' > 'A')
          quals |-> IF ctx = "bare" THEN (IF pos = "qv" THEN << <<<<107>>, X>> >> ELSE <<>>)
                    ELSE << <<<<107>>, IF pos = "qv" THEN X ELSE <<118>>>>, <<<<107,95>>, <<49>>>>, <<<<107,97>>, <<50>>>> >>,
          sub |-> Other("sub", <<115>>)]
St == <<116>>
Out == BuildF(Generic, St, Parts, LowerTab)

\* C09: what the parser must give back for the printed form

C09_BuildOk == Out.ok /\ Out.v = MkValue(Generic, St, Parts)      \* nothing is normalised here
C03_Render == LET s == FormatSpec(Out.v) IN
              /\ s = Render(Out.v)
              /\ PrintableAscii(s)
              /\ CountOf(s, AT) = (IF Out.v.ver # <<>> THEN 1 ELSE 0)
              /\ CountOf(s, QM) = (IF Out.v.quals # <<>> THEN 1 ELSE 0)
              /\ CountOf(s, HASH) = (IF Out.v.sub # <<>> THEN 1 ELSE 0)
              /\ LET iq == FirstIdx(s, QM)  ih == FirstIdx(s, HASH)
                     qreg == IF iq = 0 THEN <<>> ELSE SubSeq(s, iq + 1, IF ih = 0 THEN Len(s) ELSE ih - 1)
                 IN CountOf(qreg, AMP) = (IF Len(Out.v.quals) > 1 THEN Len(Out.v.quals) - 1 ELSE 0)
C09_ParseBack == LET r == ParseF(FormatSpec(Out.v), Generic, LowerTab) IN r.ok /\ r.v = DropInsig(Out.v)
C04_Valid == Valid(Out.v)

Emit == PrintT(<<"CASE", ToJson([k |-> "build", sh |-> "generic", st |-> St, parts |-> Parts,
                                  out |-> Outcome(Out), rt |-> DropInsig(Out.v)])>>)
=============================================================================
