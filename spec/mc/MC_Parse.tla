------------------------------ MODULE MC_Parse ------------------------------
(***************************************************************************)
(* PARSE-* suites: every string Prefix + w, w a word of at most N tokens   *)
(* of a token alphabet.  One state = one string = one case.                *)
(***************************************************************************)
EXTENDS PurlGrammar, Json, TLCExt
CONSTANTS N, SUITE

S(str) == [i \in 1..Len(str) |-> str[i]]
Pieces == << <<97,47>>, <<47>>, <<46,47>>, <<46,46,47>>, <<37,50,101,47>>, <<37,50,69,47>>, <<46,37,50,101,47>>, <<37,50,70,47>>,
            <<37,50,102,47>>, <<37,53,67,47>>, <<46,46,46,47>>, <<37,50,101,37,50,69,47>>, <<47,47>> >>
Alphabets ==
  [sep  |-> << <<47>>, <<64>>, <<63>>, <<35>>, <<61>>, <<38>>, <<97>> >>,
   \*        /  @  t  T  .  %2e  %2F  %41  %C3%A9  %80  %  1  +
   path |-> << <<47>>, <<64>>, <<116>>, <<84>>, <<46>>, <<37,50,101>>, <<37,50,70>>, <<37,52,49>>,
               <<37,67,51,37,65,57>>, <<37,56,48>>, <<37>>, <<49>>, <<43>>, <<233>>, <<32>>, <<10>> >>,
   \*        &  =  k  K  v  %26  %3D  %80  #  ?  "checksum"  "a:0A"  ,
   qual |-> << <<38>>, <<61>>, <<107>>, <<75>>, <<118>>, <<37,50,54>>, <<37,51,68>>, <<37,56,48>>,
               <<35>>, <<63>>, <<99,104,101,99,107,115,117,109>>, <<97,58,48,65>>, <<44>>, <<37,50,48>>, <<32>> >>,
   \*        "maven" "pypi" "NuGet" / @ "A_" "-." a ?k=v #s
   typed |-> << <<109,97,118,101,110>>, <<112,121,112,105>>, <<78,117,71,101,116>>, <<47>>, <<64>>,
                <<65,95>>, <<45,46>>, <<97>>, <<63,107,61,118>>, <<35,115>>, <<453>>, <<110,112,109>>, <<46,47>>, <<46,46,47>> >>,
   \* pieces of a namespace / subpath, each followed by '/':  a  (empty)  .  ..  %2e  %2E  .%2e  %2F  %2f  %5C  ...  %2e%2E
   nsseg |-> Pieces, subseg |-> Pieces,
   \* every upper-case letter and digit as a one-character key / in a type: X=1&  and  X
   upkeys |-> [i \in 1..36 |-> <<IF i <= 26 THEN 64 + i ELSE 21 + i, 61, 49, 38>>],
   uptype |-> [i \in 1..36 |-> <<IF i <= 26 THEN 64 + i ELSE 21 + i>>],
   \* whole qualifiers: ka=1& k_=2& kb=3& K_=4& k1=5& KA=6&
   quals2 |-> << <<107,97,61,49,38>>, <<107,95,61,50,38>>, <<107,98,61,51,38>>, <<75,95,61,52,38>>, <<107,49,61,53,38>>, <<75,65,61,54,38>>,
                 <<107,97,61,38>>,          \* ... and ka=& (an empty value between two non-empty ones),
                 \* a=7& (sorts before "checksum") and checksum=B:0a,a:0F& (to be canonicalised among the others)
                 <<97,61,55,38>>, <<99,104,101,99,107,115,117,109,61,66,58,48,97,44,97,58,48,70,38>> >>]
Prefixes == [sep |-> PKG, path |-> PKG, qual |-> PKG \o <<116, 47, 110, 63>>, typed |-> PKG,
             nsseg |-> PKG \o <<116, 47>>, subseg |-> PKG \o <<116, 47, 110, 35>>, quals2 |-> PKG \o <<116, 47, 110, 63>>,
             upkeys |-> PKG \o <<116, 47, 110, 63>>, uptype |-> PKG \o <<116>>]
Suffixes == [sep |-> <<>>, path |-> <<>>, qual |-> <<>>, typed |-> <<>>,
             nsseg |-> <<110>>, subseg |-> <<>>, quals2 |-> <<122, 61, 57>>,
             upkeys |-> <<95, 61, 57>>, uptype |-> <<47, 110>>]
Alphabet == Alphabets[SUITE]
Prefix == Prefixes[SUITE]

VARIABLE w
Init == w = <<>>
Next == /\ Len(w) < N
        /\ \E i \in 1..Len(Alphabet) : w' = Append(w, i)
RECURSIVE Expand(_)
Expand(t) == IF t = <<>> THEN <<>> ELSE Alphabet[t[1]] \o Expand(Tail(t))
Str == Prefix \o Expand(w) \o Suffixes[SUITE]

OutG == ParseF(Str, Generic, LowerTab)
OutT == ParseF(Str, Typed, LowerTab)
JG == Judge(Str, Generic, LowerTab)
JT == Judge(Str, Typed, LowerTab)

\* ---- design-level properties of the transcribed parser
C02C05_Generic == Agrees(OutG, JG)
C02C05_Typed == Agrees(OutT, JT)
\* the reader demands an error class only where that defect is the only one, whatever the order of evaluation
JudgeOrderFree == /\ OrderFree(JudgeRaw(Str, Generic, LowerTab), AllDefects(Str, Generic, LowerTab))
                  /\ OrderFree(JudgeRaw(Str, Typed, LowerTab), AllDefects(Str, Typed, LowerTab))
RT(out, shape) == out.ok => LET c == FormatSpec(out.v)  r == ParseF(c, shape, LowerTab)
                            IN r.ok /\ r.v = out.v /\ FormatSpec(r.v) = c
C01_RoundTrip == RT(OutG, Generic) /\ RT(OutT, Typed)
C03_Render == (OutG.ok => FormatSpec(OutG.v) = Render(OutG.v) /\ PrintableAscii(FormatSpec(OutG.v)))
C04_Valid == (OutG.ok => Valid(OutG.v)) /\ (OutT.ok => Valid(OutT.v))
C10_Rebuild == /\ (OutG.ok => Rebuild(Generic, OutG.v, LowerTab) = [ok |-> TRUE, v |-> OutG.v])
               /\ (OutT.ok => Rebuild(Typed, OutT.v, LowerTab) = [ok |-> TRUE, v |-> OutT.v])
\* C07: structure of namespace and subpath of every accepted string
NoBadSeg(x, dots) == x = <<>> \/ \A g \in Range(Split(x, SLASH)) : g # <<>> /\ (dots => ~DotSeg(g))
C07_Structure == OutG.ok => NoBadSeg(OutG.v.ns, FALSE) /\ NoBadSeg(OutG.v.sub, TRUE)
\* C08: typed and generic agree outside type and name
C08_TypedVsGeneric == OutT.ok => /\ OutG.ok
                                 /\ OutT.v.ns = OutG.v.ns /\ OutT.v.ver = OutG.v.ver
                                 /\ OutT.v.quals = OutG.v.quals /\ OutT.v.sub = OutG.v.sub
                                 /\ OutT.v.type = OutG.v.type
C08_UnknownType == (OutG.ok /\ ~Lookup(OutG.v.type).ok) => (~OutT.ok /\ OutT.err = "UnsupportedType")

JOut(jd) == IF jd.j = "acc" THEN [j |-> "acc", v |-> jd.v, str |-> jd.str] ELSE jd
\* C16: a JSON value that is not a string is refused, whatever it contains (texts as code points):
\* null true 0 1.5 [] {} ["pkg:t/n"] {"purl":"pkg:t/n"}
NonStringJson == << <<110,117,108,108>>, <<116,114,117,101>>, <<48>>, <<49,46,53>>, <<91,93>>, <<123,125>>,
                    <<91,34,112,107,103,58,116,47,110,34,93>>, <<123,34,112,117,114,108,34,58,34,112,107,103,58,116,47,110,34,125>> >>
EmitNonString == w = <<>> => PrintT(<<"CASE", ToJson([k |-> "serde_ns", texts |-> NonStringJson, exp |-> [ok |-> FALSE]])>>)
Emit == PrintT(<<"CASE", ToJson([k |-> "parse", s |-> Str,
                                  gj |-> JG, go |-> Outcome(OutG), tj |-> JT, to |-> Outcome(OutT)])>>)
=============================================================================
