------------------------------ MODULE MC_Values ------------------------------
(***************************************************************************)
(* VALUES suite (C19): pairs of normalised PURL values from a universe of  *)
(* near-collisions (one separator moved between adjacent fields, '&' and   *)
(* '=' inside qualifier values, literal escapes, letter case).             *)
(*   eq  <=>  identical canonical string  (Display is injective)           *)
(*   the derived order is total, antisymmetric, transitive, Equal iff eq   *)
(* PINNED = TRUE uses the escape set of the pinned tree (no '&'): TLC then *)
(* exhibits the collision of defect D1 - the vacuity control of this suite.*)
(***************************************************************************)
EXTENDS PurlGrammar, PurlBuilder, Json, TLCExt
CONSTANTS SIZE, PINNED

V(t, ns, name, ver, q, sub) == [type |-> t, ns |-> ns, name |-> name, ver |-> ver, quals |-> q, sub |-> sub]
T == <<116>>
a == <<97>>  b == <<98>>  c == <<99>>  k == <<107>>  ll == <<108>>  s == <<115>>  one == <<49>>  v == <<118>>
Q1(key, val) == << <<key, val>> >>
Q2(k1, v1, k2, v2) == << <<k1, v1>>, <<k2, v2>> >>
\* ns / name boundary
\* builder-made values with insignificant segments: different values, different strings
F0 == {V(T, <<>>, c, <<>>, <<>>, s), V(T, <<>>, c, <<>>, <<>>, s \o <<47>>), V(T, <<>>, c, <<>>, <<>>, <<47>> \o s), V(T, <<>>, c, <<>>, <<>>, <<47>>),
       V(T, a, c, <<>>, <<>>, <<>>), V(T, a \o <<47>>, c, <<>>, <<>>, <<>>), V(T, <<47>>, c, <<>>, <<>>, <<>>), V(T, <<>>, c, <<>>, <<>>, <<46>>)}
F1 == {V(T, a \o <<47>> \o b, c, <<>>, <<>>, <<>>), V(T, a, b \o <<47>> \o c, <<>>, <<>>, <<>>), V(T, <<>>, a \o <<47>> \o b \o <<47>> \o c, <<>>, <<>>, <<>>),
       V(T, a \o <<37,50,70>> \o b, c, <<>>, <<>>, <<>>), V(a, b, c, <<>>, <<>>, <<>>)}
\* name / version boundary
F2 == {V(T, <<>>, c, one, <<>>, <<>>), V(T, <<>>, c \o <<64>> \o one, <<>>, <<>>, <<>>), V(T, <<>>, c, <<64>> \o one, <<>>, <<>>),
       V(T, <<>>, c \o <<64>>, one, <<>>, <<>>), V(T, <<>>, c, one \o <<47>> \o a, <<>>, <<>>), V(T, <<>>, c \o <<37,52,48>> \o one, <<>>, <<>>, <<>>)}
\* version / qualifiers / subpath boundaries
F3 == {V(T, <<>>, c, one, Q1(k, v), <<>>), V(T, <<>>, c, one \o <<63>> \o k \o <<61>> \o v, <<>>, <<>>), V(T, <<>>, c \o <<63>> \o k \o <<61>> \o v, <<>>, <<>>, <<>>),
       V(T, <<>>, c, <<>>, Q1(k, v), s), V(T, <<>>, c, <<>>, Q1(k, v \o <<35>> \o s), <<>>), V(T, <<>>, c, <<>>, <<>>, s), V(T, <<>>, c \o <<35>> \o s, <<>>, <<>>, <<>>),
       V(T, <<>>, c, <<>>, <<>>, s \o <<47>> \o a), V(T, <<>>, c, <<>>, <<>>, s \o <<37,50,70>> \o a), V(T, <<>>, c, <<>>, <<>>, s \o <<63>> \o k \o <<61>> \o v)}
\* inside the qualifiers
F4 == {V(T, <<>>, c, <<>>, Q1(k, a \o <<38>> \o ll \o <<61>> \o c), <<>>), V(T, <<>>, c, <<>>, Q2(k, a, ll, c), <<>>),
       V(T, <<>>, c, <<>>, Q1(k, a \o <<61>> \o b), <<>>), V(T, <<>>, c, <<>>, Q1(k, a), <<>>), V(T, <<>>, c, <<>>, Q1(k \o a, <<61>> \o b), <<>>),
       V(T, <<>>, c, <<>>, Q1(k, a \o <<37,50,54>> \o ll \o <<61>> \o c), <<>>), V(T, <<>>, c, <<>>, Q2(k, a, ll, c \o <<38>>), <<>>),
       V(T, <<>>, c, <<>>, Q1(k \o a, a), <<>>), V(T, <<>>, c, <<>>, Q1(k \o <<95>>, a), <<>>), V(T, <<>>, c, <<>>, Q2(k, a, k \o a, a), <<>>),
       V(T, <<>>, c, <<>>, Q1(k, a \o <<43>> \o b), <<>>), V(T, <<>>, c, <<>>, Q1(k, a \o <<32>> \o b), <<>>), V(T, <<>>, c, <<>>, Q1(k, a \o <<37,50,48>> \o b), <<>>)}
\* letter case, literal escapes, non-ASCII
F5 == {V(T, <<>>, c, <<>>, <<>>, <<>>), V(T, <<>>, <<67>>, <<>>, <<>>, <<>>), V(T, <<>>, <<37,54,51>>, <<>>, <<>>, <<>>), V(T, <<>>, <<233>>, <<>>, <<>>, <<>>),
       V(T, <<>>, <<37,67,51,37,65,57>>, <<>>, <<>>, <<>>), V(T, <<>>, <<101, 769>>, <<>>, <<>>, <<>>), V(<<116, 116>>, <<>>, c, <<>>, <<>>, <<>>),
       V(T, c, c, <<>>, <<>>, <<>>), V(T, <<>>, c, c, <<>>, <<>>), V(T, <<>>, c, <<>>, <<>>, c), V(T, <<>>, c, <<>>, Q1(c, c), <<>>)}
Universe == IF SIZE = "q" THEN F0 \cup F1 \cup F2 \cup F4 ELSE F0 \cup F1 \cup F2 \cup F3 \cup F4 \cup F5
USeq == SortStrs({FormatSpec(x) : x \in Universe})       \* only used to order the emitted set deterministically

VARIABLES x, y
Init == x \in Universe /\ y \in Universe
Next == UNCHANGED <<x, y>>

Fmt(u) == IF PINNED THEN FormatPinned(u) ELSE FormatSpec(u)
AllValid == \A u \in Universe : Valid(u) /\ BuildF(Generic, u.type, PartsOf(u), LowerTab) = [ok |-> TRUE, v |-> u]
C19_Injective == (x = y) <=> (Fmt(x) = Fmt(y))
C19_OrderLaws == /\ (ValueCmp(x, y) = 0 <=> x = y)
                 /\ (ValueCmp(x, y) = 1 <=> ValueCmp(y, x) = 2)
                 /\ \A z \in Universe : (ValueCmp(x, y) = 2 /\ ValueCmp(y, z) = 2) => ValueCmp(x, z) = 2
C19_ParseInverts == LET r == ParseF(Fmt(x), Generic, LowerTab) IN r.ok /\ r.v = DropInsig(x)
Emit == PrintT(<<"CASE", ToJson([k |-> "pair", a |-> x, b |-> y, eq |-> (x = y)])>>)
=============================================================================
