------------------------------ MODULE MC_Shapes ------------------------------
(***************************************************************************)
(* SHAPES suite (C14, C04, C06): a parameterised family of user-supplied   *)
(* shapes (conversion ok / fails; hook ok / fails; hook performs up to E   *)
(* edits drawn from EditU) x parse inputs and builder inputs.              *)
(***************************************************************************)
EXTENDS ShapeMachine, Json, TLCExt, FiniteSets, SequencesExt
CONSTANT E

S(x) == x
EditU == << <<"clearName">>, <<"setName", <<78,50>>>>, <<"setNs", <<104,47,110,115>>>>, <<"setVer", <<>>>>,
            <<"setSub", <<46,46,47,120>>>>, <<"insQ", <<101>>, <<>>>>, <<"insQ", <<90>>, <<49>>>>,
            <<"insQ", CHECKSUM, <<66,58,48,48,44,97,58,70,70>>>>, <<"insQ", CHECKSUM, <<122,122>>>>,
            <<"insQ", CHECKSUM, <<>>>>, <<"remQ", <<107>>>>, <<"insQ", <<33>>, <<120>>>>,
            <<"insQ", CHECKSUM, <<97,58,48,44,98,58,49>>>>,                    \* "a:0,b:1": two odd-length hashes
            <<"remQ", CHECKSUM>> >>                                            \* the hook takes the checksum away
RECURSIVE Subseqs(_, _)          \* index-increasing subsequences of 1..n with at most e elements
Subseqs(from, e) == IF e = 0 \/ from > Len(EditU) THEN {<<>>}
                    ELSE Subseqs(from + 1, e) \cup {<<EditU[from]>> \o x : x \in Subseqs(from + 1, e - 1)}
EditSets == Subseqs(1, E)
Shapes == {[kind |-> "test", conv |-> c, fin |-> f, edits |-> es] : c \in BOOLEAN, f \in BOOLEAN, es \in EditSets}
ParseInputs == { PKG \o <<84,121,47,110,115,47,110,64,49,63,107,61,118,35,115>>,          \* pkg:Ty/ns/n@1?k=v#s
                 PKG \o <<116,47,110>>,                                                   \* pkg:t/n
                 PKG \o <<116,47,110,63,99,104,101,99,107,115,117,109,61,97,58,48,48>>,   \* pkg:t/n?checksum=a:00
                 PKG \o <<116,33,47,110>>,                                                \* pkg:t!/n   (invalid type)
                 PKG \o <<116,47,37,56,48>>,                                              \* pkg:t/%80  (bad escape after the type)
                 <<116,47,110>>,                                                          \* t/n        (no scheme)
                 PKG \o <<116,47>>,                                                       \* pkg:t/     (no name)
                 PKG \o <<233,47,110>>,                                                   \* pkg:e-acute/n (non-ASCII type)
                 \* a defect after a well-formed type (the conversion may or may not have been tried), and two defects at once
                 PKG \o <<116,47,110,63,101,61,38,107,61,118>>,                           \* pkg:t/n?e=&k=v (an empty-valued qualifier)
                 PKG \o <<116,47,110,63,99,104,101,99,107,115,117,109,61,122,122>>,       \* pkg:t/n?checksum=zz (malformed as written: the hook may repair or remove it)
                 PKG \o <<116,47,110,63,107>>,                                            \* pkg:t/n?k      (qualifier without '=')
                 PKG \o <<116,47,110,35,37,56,48>>,                                       \* pkg:t/n#%80    (bad escape in the subpath)
                 PKG \o <<116,63,107,61,118>>,                                            \* pkg:t?k=v      (no name, type well-formed)
                 PKG \o <<116,33,47,110,63,107>>,                                         \* pkg:t!/n?k     (invalid type and bad qualifier)
                 PKG \o <<116,47,37,56,48,63,107,61,49,38,75,61,50>> }                    \* pkg:t/%80?k=1&K=2 (bad escape and repeated key)
\* GenericPurl::new(type, name) is builder(type, name).build()
NewInputs == { [st |-> <<84,121>>, name |-> <<110>>], [st |-> <<116>>, name |-> <<>>] }
BuildInputs == { [st |-> <<84,121>>, parts |-> [NoParts EXCEPT !.name = <<110>>, !.quals = << <<<<107>>, <<118>>>> >>]],
                 [st |-> <<116>>, parts |-> NoParts],
                 [st |-> <<33>>, parts |-> [NoParts EXCEPT !.name = <<110>>]] }              \* type "!": Display must panic

VARIABLES input
vars == <<mvars, input>>
Init == MInit /\ input = <<>>
\* the built-in shapes go through the same machine (no case is emitted for them)
BuiltinInputs == ParseInputs \cup { PKG \o <<109,97,118,101,110,47,110>>, PKG \o <<80,121,80,105,47,65,95,46,98,64,49>>, PKG \o <<110,117,103,101,116,47,103,47,65,198>> }
Begin == /\ pc = "idle"
         /\ \/ \E s \in ParseInputs, shp \in Shapes : MBeginParse(s, shp) /\ input' = [entry |-> "parse", s |-> s]
            \/ \E s \in BuiltinInputs, shp \in {Generic, Typed} : MBeginParse(s, shp) /\ input' = [entry |-> "parse", s |-> s]
            \/ \E b \in BuildInputs, shp \in Shapes : MBeginBuild(b.st, b.parts, shp) /\ input' = [entry |-> "build", st |-> b.st, parts |-> b.parts]
            \/ \E b \in NewInputs, shp \in Shapes : LET p0 == [NoParts EXCEPT !.name = b.name] IN
                                                      MBeginBuild(b.st, p0, shp) /\ input' = [entry |-> "new", st |-> b.st, parts |-> p0]
\* every behaviour of the machine: the callbacks in any admitted order, every admitted outcome
Conv == MConv(info.type) /\ UNCHANGED input
Finish == LET r == StepFinish(shape, st, parts, LowerTab) IN
          MFinish(parts, IF r.ok THEN r.parts ELSE parts, r.ok) /\ UNCHANGED input
End == \E o \in AllowedOut : MEnd(o) /\ UNCHANGED input
\* the machine stops at "end": one call per behaviour
Next == Begin \/ Conv \/ Finish \/ End
Spec == Init /\ [][Next]_vars

Fresh == pc = "open" /\ conv = "none" /\ hook = "none"
Allowed == IF input.entry = "parse" THEN AllowedParse(input.s, shape) ELSE AllowedBuild(input.st, input.parts, shape)
\* what the library does today, in the order it does it (PurlParse!ParseF, PurlBuild!BuildF)
LibOut == IF input.entry = "parse" THEN ParseF(input.s, shape, LowerTab) ELSE BuildF(shape, input.st, input.parts, LowerTab)
LibConv == IF input.entry = "parse" /\ ParseFront(input.s).ok THEN 1 ELSE 0
LibFin == IF input.entry # "parse" THEN 1
          ELSE LET f == ParseFront(input.s) IN
               IF f.ok /\ ShapeConv(shape, f.type).ok /\ ParseBack(f).ok THEN 1 ELSE 0
\* the order-free analysis of the string agrees with the transcribed parser
C14_Analysis == (Fresh /\ input.entry = "parse") => InfoMatchesParse(input.s)
\* the library's present order of evaluation is one of the behaviours the machine admits ...
LibraryOrderAdmitted == Fresh => (LibOut \in Allowed.outs /\ LibConv \in Allowed.nconv /\ LibFin \in Allowed.nfin)
\* ... and the summary handed to the replay is what the machine does: every behaviour ends inside it
MachineWithinAllowed == pc = "end" => (out \in Allowed.outs /\ nConv \in Allowed.nconv /\ nFin \in Allowed.nfin)
\* when the input has at most one defect the outcome is determined
SingleDefectDetermined == (Fresh /\ input.entry = "parse" /\ Cardinality(info.defects) <= 1 /\ (info.clean \/ ~info.typeKnown \/ ShapeConv(shape, info.type).ok))
                            => (Cardinality(Allowed.outs) = 1 \/ info.clean)
Emit == (Fresh /\ shape.kind = "test") =>
     PrintT(<<"CASE", ToJson([k |-> "shape", input |-> input, shape |-> [conv |-> shape.conv, fin |-> shape.fin, edits |-> shape.edits],
                               outs |-> SetToSeq({Outcome(o) : o \in Allowed.outs}),
                               nconv |-> SetToSeq(Allowed.nconv), nfin |-> SetToSeq(Allowed.nfin)])>>)
=============================================================================
