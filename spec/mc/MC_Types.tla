------------------------------ MODULE MC_Types ------------------------------
(***************************************************************************)
(* TYPES suites (C08, C15, C18).                                           *)
(*  MODE = "names"   : every name over a small alphabet (ASCII case,       *)
(*                     digits, the three pypi separators, an upper-case    *)
(*                     and a titlecase non-ASCII letter) x types; parsed   *)
(*                     raw, parsed fully escaped, and built.               *)
(*  MODE = "lookup"  : strings near the seven type names -> from_str.      *)
(*  MODE = "combined": combined names over {a b / :} x seven types.        *)
(*  MODE = "combesc": the same over {@ % 2 F f 3 A : / ! a}: escapes of    *)
(*                    any convention are ordinary characters here.          *)
(*  MODE = "typestr" : type strings over {g B T 1 . + - ! , e-acute} for   *)
(*                     the four generic type parameters (C13).             *)
(***************************************************************************)
EXTENDS PurlGrammar, PurlBuilder, Json, TLCExt
CONSTANTS MODE, L

NameAlpha == <<97, 65, 49, 45, 95, 46, 198, 453, 931, 233, 304>>      \* a A 1 - _ . AE Dz(titlecase) Sigma e-acute I-dot(two-scalar mapping)
CombAlpha == <<97, 98, 47, 58>>
CombEscAlpha == <<64, 37, 50, 70, 102, 51, 65, 58, 47, 33, 97>>       \* @ % 2 F f 3 A : / ! a
IsComb == MODE \in {"combined", "combesc"}
TypesN == <<PYPI, NUGET, CARGO, NPM, MAVEN>>
AllTypes == <<CARGO, GEM, GOLANG, MAVEN, NPM, NUGET, PYPI>>

\* ---- lookup universe
RECURSIVE CaseVariants(_)
CaseVariants(s) == IF s = <<>> THEN {<<>>}
                   ELSE LET r == CaseVariants(Tail(s)) IN {<<s[1]>> \o x : x \in r} \cup {<<AUpper(s[1])>> \o x : x \in r}
Letters == {97, 99, 101, 103, 105, 108, 109, 110, 111, 112, 114, 116, 117, 118, 121}   \* letters of the names
LookAlikes == {383, 8490, 305, 304, 65345, 65325, 1072, 32, 0, 45}    \* long s, Kelvin, dotless i, I-dot, fullwidth a, fullwidth M, cyrillic a, space, NUL, '-'
EditChars == Letters \cup LookAlikes
Edits(s) == {Take(s, i) \o <<c>> \o Drop(s, i) : i \in 0..Len(s), c \in EditChars}            \* insert
            \cup {Take(s, i - 1) \o Drop(s, i) : i \in 1..Len(s)}                               \* delete
            \cup {Take(s, i - 1) \o <<c>> \o Drop(s, i) : i \in 1..Len(s), c \in EditChars}     \* substitute
S(str) == [i \in 1..Len(str) |-> str[i]]
OtherTypes == {<<97,108,112,109>>, <<97,112,107>>, <<98,105,116,98,117,99,107,101,116>>, <<99,111,99,111,97,112,111,100,115>>,
               <<99,111,109,112,111,115,101,114>>, <<99,111,110,97,110>>, <<99,111,110,100,97>>, <<99,114,97,110>>, <<100,101,98>>,
               <<100,111,99,107,101,114>>, <<103,101,110,101,114,105,99>>, <<103,105,116,104,117,98>>, <<103,111>>, <<104,97,99,107,97,103,101>>,
               <<104,101,120>>, <<109,108,102,108,111,119>>, <<111,99,105>>, <<112,117,98>>, <<114,112,109>>, <<115,119,105,102,116>>,
               <<113,112,107,103>>, <<115,119,105,100>>, <<104,117,103,103,105,110,103,102,97,99,101>>, <<108,117,97,114,111,99,107,115>>, <<98,105,116,110,97,109,105>>}
\* colloquial names of the seven ecosystems and of their tools (none of them is a type name): rubygems, rubygem, gems, ruby, go, gomod, golang.org, go-module, pip, pypi.org, python, py ...
Aliases == {<<114,117,98,121,103,101,109,115>>, <<114,117,98,121,103,101,109>>, <<103,101,109,115>>, <<114,117,98,121>>, <<103,111>>, 
            <<103,111,109,111,100>>, <<103,111,108,97,110,103,46,111,114,103>>, <<103,111,45,109,111,100,117,108,101>>, <<112,105,112>>, 
            <<112,121,112,105,46,111,114,103>>, <<112,121,116,104,111,110>>, <<112,121>>, <<119,104,101,101,108>>, <<101,103,103>>, 
            <<99,114,97,116,101,115>>, <<99,114,97,116,101,115,46,105,111>>, <<99,114,97,116,101>>, <<114,117,115,116>>, <<109,118,110>>, 
            <<109,97,118,101,110,50>>, <<109,97,118,101,110,45,99,101,110,116,114,97,108>>, <<103,114,97,100,108,101>>, <<106,97,118,97>>, 
            <<106,97,114>>, <<110,111,100,101>>, <<110,111,100,101,106,115>>, <<110,112,109,106,115>>, <<121,97,114,110>>, <<106,115>>, 
            <<100,111,116,110,101,116>>, <<110,117,103,101,116,46,111,114,103>>, <<99,115,104,97,114,112>>, <<110,117,112,107,103>>, 
            <<99,97,114,103,111,46,105,111>>, <<99,111,109,112,111,115,101,114>>, <<112,97,99,107,97,103,105,115,116>>, <<103,101,109,50>>, 
            <<110,112,109,50>>, <<112,121,112,105,51>>}
LookupUniverse ==
   UNION {CaseVariants(n) : n \in TypeNames}
   \cup UNION {Edits(n) : n \in TypeNames}
   \cup OtherTypes \cup Aliases \cup {<<>>, <<32>>}
   \cup {<<32>> \o n : n \in TypeNames} \cup {n \o <<32>> : n \in TypeNames} \cup {n \o n : n \in TypeNames}

VARIABLES w, t, done
vars == <<w, t, done>>
TypeAlpha == <<103, 66, 84, 90, 49, 46, 43, 45, 33, 44, 233, 8490, 13, 16>>     \* g B T Z 1 . + - ! , e-acute Kelvin CR DLE
Alpha == IF MODE = "combined" THEN CombAlpha ELSE IF MODE = "combesc" THEN CombEscAlpha ELSE IF MODE = "typestr" THEN TypeAlpha ELSE NameAlpha
TypeSeq == IF IsComb THEN AllTypes ELSE IF MODE = "typestr" THEN <<CARGO>> ELSE TypesN
Init == IF MODE = "lookup" THEN w \in LookupUniverse /\ t = 1 /\ done = TRUE
        ELSE w = <<>> /\ t \in 1..Len(TypeSeq) /\ done = FALSE
Next == /\ MODE # "lookup" /\ Len(w) < L
        /\ \E i \in 1..Len(Alpha) : w' = Append(w, Alpha[i])
        /\ UNCHANGED <<t, done>>
Ty == TypeSeq[t]

\* ---- names
RECURSIVE EscMixed(_, _)                     \* every character escaped, alternating hex case
EscMixed(s, up) == IF s = <<>> THEN <<>> ELSE (IF up THEN EscUp(s[1]) ELSE EscLo(s[1])) \o EscMixed(Tail(s), ~up)
Ns == IF Ty = MAVEN THEN <<103, 47>> ELSE <<>>                      \* maven needs a namespace: "g/"
RawStr == PKG \o AUpperS(Ty) \o <<SLASH>> \o Ns \o w
EscStr == PKG \o Ty \o <<SLASH>> \o Ns \o EscMixed(w, TRUE)
NameRule(n) == IF Ty = PYPI THEN PypiName(n, LowerTab) ELSE IF Ty = NUGET THEN NugetName(n, LowerTab) ELSE n
OutRaw == ParseF(RawStr, Typed, LowerTab)
OutEsc == ParseF(EscStr, Typed, LowerTab)
OutGen == ParseF(RawStr, Generic, LowerTab)
BParts == [NoParts EXCEPT !.name = w, !.ns = IF Ty = MAVEN THEN <<103>> ELSE <<>>]
OutB == BuildF(Typed, Ty, BParts, LowerTab)
C08_NameRule == (MODE = "names" /\ w # <<>>) =>
     /\ OutRaw.ok /\ OutRaw.v.name = NameRule(w)
     /\ OutEsc = OutRaw                                               \* escaping changes nothing
     /\ OutB = OutRaw                                                 \* builder path = parser path
     /\ OutGen.ok /\ OutGen.v.name = w /\ OutGen.v.ns = OutRaw.v.ns /\ OutGen.v.ver = OutRaw.v.ver
     /\ NameRule(NameRule(w)) = NameRule(w)                           \* idempotent (C10)
C08_Judged == MODE = "names" => Agrees(OutRaw, Judge(RawStr, Typed, LowerTab)) /\ Agrees(OutEsc, Judge(EscStr, Typed, LowerTab))
C10_Rebuild == (MODE = "names" /\ OutRaw.ok) => Rebuild(Typed, OutRaw.v, LowerTab) = [ok |-> TRUE, v |-> OutRaw.v]
C01_RoundTrip == (MODE = "names" /\ OutRaw.ok) =>
     LET c == FormatSpec(OutRaw.v)  r == ParseF(c, Typed, LowerTab) IN r.ok /\ r.v = OutRaw.v /\ FormatSpec(r.v) = c
\* D3 on the model: the pinned scan-then-branch lower-casing differs from the rule exactly on
\* names whose first character with a lower-case mapping is a titlecase letter
PinnedSame == LowerInPlacePinned(w, LowerTab, {198, 931}) = NugetName(w, LowerTab)     \* violated: vacuity control (tools/selftest.py)

\* ---- lookup (C15)
C15_Lookup == MODE = "lookup" =>
     /\ (Lookup(w).ok <=> ALowerS(w) \in TypeNames)
     /\ (Lookup(w).ok => Lookup(w).t = ALowerS(w))
C15_Names == /\ \A a, b \in TypeNames : (ALowerS(a) = ALowerS(b)) => a = b
             /\ \A a \in TypeNames : ValidType(a) /\ a = ALowerS(a)

\* ---- combined (C18)
Sp == SplitCombined(Ty, w)
CombB == BuildF(Typed, Ty, [NoParts EXCEPT !.ns = Sp.ns, !.name = Sp.name], LowerTab)
C18_Split == IsComb =>
     /\ (Ty \in {GOLANG, NPM} => (IF Contains(w, SLASH) THEN Sp.name = Drop(w, LastIdx(w, SLASH)) /\ ~Contains(Sp.name, SLASH)
                                                              /\ Sp.ns \o <<SLASH>> \o Sp.name = w
                                  ELSE Sp.ns = <<>> /\ Sp.name = w))
     /\ (Ty = MAVEN => (IF Contains(w, COLON) THEN ~Contains(Sp.ns, COLON) /\ Sp.ns \o <<COLON>> \o Sp.name = w
                        ELSE Sp.ns = <<>> /\ Sp.name = w))
     /\ (Ty \notin {GOLANG, NPM, MAVEN} => Sp.ns = <<>> /\ Sp.name = w)
\* inverse law: for a built value satisfying the side condition, the constructor reproduces ns and name
C18_Inverse == (IsComb /\ CombB.ok /\ CombinedInvertible(CombB.v)) =>
     LET s2 == SplitCombined(Ty, JoinCombined(CombB.v)) IN s2.ns = CombB.v.ns /\ s2.name = CombB.v.name

\* ---- type strings (C13): the separately transcribed finish implementations coincide
TsParts == [NoParts EXCEPT !.name = <<110>>]
C13_Finish == MODE = "typestr" => FinishString(w) = FinishCowBorrowed(w)
EmitTypeStr == MODE = "typestr" =>
   PrintT(<<"CASE", ToJson([k |-> "build", sh |-> "generic", st |-> w, parts |-> TsParts,
                             out |-> Outcome(BuildF(Generic, w, TsParts, LowerTab)), jerr |-> FALSE,
                             rt |-> IF BuildF(Generic, w, TsParts, LowerTab).ok THEN BuildF(Generic, w, TsParts, LowerTab).v ELSE <<>>])>>)

EmitNames == (MODE = "names" /\ w # <<>>) =>
   /\ PrintT(<<"CASE", ToJson([k |-> "parse", s |-> RawStr, gj |-> Judge(RawStr, Generic, LowerTab), go |-> Outcome(OutGen),
                               tj |-> Judge(RawStr, Typed, LowerTab), to |-> Outcome(OutRaw)])>>)
   /\ PrintT(<<"CASE", ToJson([k |-> "parse", s |-> EscStr, gj |-> Judge(EscStr, Generic, LowerTab),
                               go |-> Outcome(ParseF(EscStr, Generic, LowerTab)),
                               tj |-> Judge(EscStr, Typed, LowerTab), to |-> Outcome(OutEsc)])>>)
   /\ PrintT(<<"CASE", ToJson([k |-> "build", sh |-> "typed", st |-> Ty, parts |-> BParts, out |-> Outcome(OutB),
                               jerr |-> FALSE, rt |-> IF OutB.ok THEN DropInsig(OutB.v) ELSE <<>>])>>)
\* the same strings as the type of a PURL (when they are syntactically valid types): C08's last clause
LookupPurl == PKG \o w \o <<47, 103, 47, 110>>                       \* pkg:<w>/g/n
C08_NearTypes == (MODE = "lookup" /\ ValidType(w)) =>
     /\ Agrees(ParseF(LookupPurl, Typed, LowerTab), Judge(LookupPurl, Typed, LowerTab))
     /\ ParseF(LookupPurl, Generic, LowerTab).ok
     /\ (ParseF(LookupPurl, Typed, LowerTab).ok <=> Lookup(w).ok)
EmitLookup == MODE = "lookup" =>
   /\ PrintT(<<"CASE", ToJson([k |-> "tlookup", s |-> w, exp |-> IF Lookup(w).ok THEN [some |-> TRUE, v |-> Lookup(w).t] ELSE [some |-> FALSE]])>>)
   /\ (ValidType(w) =>
         PrintT(<<"CASE", ToJson([k |-> "parse", s |-> LookupPurl, gj |-> Judge(LookupPurl, Generic, LowerTab),
                                   go |-> Outcome(ParseF(LookupPurl, Generic, LowerTab)),
                                   tj |-> Judge(LookupPurl, Typed, LowerTab), to |-> Outcome(ParseF(LookupPurl, Typed, LowerTab))])>>))
EmitCombined == IsComb =>
   PrintT(<<"CASE", ToJson([k |-> "comb", t |-> Ty, s |-> w, split |-> Sp, out |-> Outcome(CombB),
                             joined |-> IF CombB.ok THEN JoinCombined(CombB.v) ELSE <<>>,
                             invertible |-> (CombB.ok /\ CombinedInvertible(CombB.v))])>>)
=============================================================================
