------------------------------- MODULE MC_Qual -------------------------------
(***************************************************************************)
(* QUAL suite (C11): the sorted-Vec machine over a key/value universe that *)
(* contains case variants, '_' next to letters (the comparator's order),   *)
(* invalid keys, a Kelvin sign (lower-cases to 'k') and empty values.      *)
(* Every transition is one case; HIST = TRUE records call sequences.       *)
(***************************************************************************)
EXTENDS Qualifiers, Json, TLCExt
CONSTANTS SIZE, HIST, DEPTH, K

\* k K ka k_ K_ b "" ! Kelvin e-acute
KeysQ == {<<107>>, <<75>>, <<107,97>>, <<107,95>>, <<98>>, <<>>, <<33>>, <<8490>>}
KeysT == KeysQ \cup {<<75,95>>, <<233>>, <<107,46,98>>, <<75,65>>}
Keys == IF SIZE = "q" THEN KeysQ ELSE KeysT
Vals == IF SIZE = "q" THEN {<<>>, <<120>>} ELSE {<<>>, <<120>>, <<121>>}
CkTyped == {<<>>, << <<<<83,72,65>>, <<48,65>>>> >>, << <<<<97>>, <<48>>>> >>}
PairLists == {<<>>, << <<<<107>>, <<120>>>>, <<<<75>>, <<121>>>> >>, << <<<<107,97>>, <<120>>>>, <<<<107,95>>, <<>>>>, <<<<98>>, <<120>>>> >>,
              << <<<<98>>, <<120>>>>, <<<<33>>, <<120>>>> >>,
              << <<<<107>>, <<120>>>>, <<<<107,95>>, <<120>>>>, <<<<107,97>>, <<121>>>>, <<<<98>>, <<120>>>> >>, << <<<<107,95>>, <<120>>>>, <<<<107,97>>, <<121>>>>, <<<<107>>, <<120>>>> >>}
K1 == {"get", "contains_key", "remove", "index", "entry_classify", "occ_remove", "occ_remove_entry"}
K2 == {"insert", "get_mut_set", "index_mut_set", "entry_or_insert", "entry_or_insert_with", "occ_insert", "vac_insert"}
Ops == {<<n, k>> : n \in K1, k \in Keys}
       \cup {<<n, k, v>> : n \in K2, k \in Keys, v \in Vals}
       \* the closure compares QualifierKey with a string: judged for ASCII strings only
       \* (key == <non-ASCII string> uses Unicode lower-casing and is left unjudged, DESIGN.md 4)
       \cup {<<"retain_key_ne", k>> : k \in {x \in Keys : IsAscii(x)}}
       \cup {<<"count_keys_lt", k>> : k \in {x \in Keys : IsAscii(x)}}
       \cup {<<"entry_and_modify_or_insert", k, <<122>>, v>> : k \in Keys, v \in Vals}
       \cup {<<"retain_nonempty">>, <<"clear">>, <<"reserve", <<>>>>, <<"remove_typed_repo">>, <<"get_typed_repo">>,
             <<"try_get_typed_checksum">>, <<"retain_mut_set", <<120>>>>, <<"iter_mut_set", <<>>>>}
       \cup {<<"insert_typed_repo", v>> : v \in Vals}
       \cup {<<"insert_typed", n, <<120>>>> : n \in KnownNames} \cup {<<"get_typed", n>> : n \in KnownNames}
       \cup {<<"remove_typed", n>> : n \in KnownNames} \cup {<<"insert_typed_badkey", <<120>>>>}
       \cup {<<"try_insert_typed_checksum", c>> : c \in CkTyped}
       \cup {<<"insert", CHECKSUM, <<122,122>>>>, <<"insert", CHECKSUM, <<66,58,48,65,44,97,58,102,70>>>>}
       \cup {<<"try_from_iter", ps>> : ps \in PairLists}

VARIABLES vec, hist
vars == <<vec, hist>>
Init == vec = <<>> /\ hist = <<>>
\* state constraint: at most K entries at a time
\* ... and the larger contents reached by try_from_iter are explored as well (removal from the front / middle of 3 or 4 entries)
BigStates == {VecFromPairs(ps, <<>>, LowerTab).vec : ps \in {q \in PairLists : VecFromPairs(q, <<>>, LowerTab).ok}}
Small == Len(vec) <= K \/ vec \in BigStates
Step(op) == LET r == VecApply(vec, op, LowerTab) IN
            /\ vec' = r.vec
            /\ hist' = IF HIST THEN Append(hist, [op |-> op, res |-> r.res, post |-> r.vec]) ELSE hist
            /\ (~HIST => PrintT(<<"CASE", ToJson([k |-> "qop", pre |-> vec, op |-> op, res |-> r.res, post |-> r.vec])>>))
Next == (HIST => Len(hist) < DEPTH) /\ \E op \in Ops : Step(op)
Spec == Init /\ [][Next]_vars

\* C11: refinement of the reference map
A == INSTANCE QualMap WITH m <- Abs(vec), Ops <- Ops
Refines == A!Spec
C11_Sorted == StrictlySorted(vec) /\ KeysCanonical(vec)
\* step simulation stated as an invariant as well (every op from every reachable state)
C11_StepRefines == \A op \in Ops : LET rv == VecApply(vec, op, LowerTab)  rm == MapApply(Abs(vec), op, LowerTab)
                                   IN rv.res = rm.res /\ Abs(rv.vec) = rm.m /\ StrictlySorted(rv.vec)
\* equal content <=> equal Vec: derived ==, cmp, hash of two collections agree with the content
C11_Canonical == vec = MapPairs(Abs(vec))
EmitSeq == (HIST /\ Len(hist) = DEPTH) => PrintT(<<"CASE", ToJson([k |-> "qseq", steps |-> hist])>>)
=============================================================================
