------------------------------- MODULE MC_Spell -------------------------------
(***************************************************************************)
(* SPELL and FAULT suites (C02, C05): a universe of component tuples x     *)
(*   MODE = "spell": every spelling with at most K deviations (letter      *)
(*           case, raw / %XX / %xx per character, extra slashes, raw dot   *)
(*           segments, qualifier order, interleaved empty qualifiers, raw  *)
(*           '@' '?' '#' left of the separator, checksum entry order/case) *)
(*   MODE = "fault": every single fault of C05 injected into the canonical *)
(*           spelling, and a few double faults.                            *)
(***************************************************************************)
EXTENDS PurlWriter, Json, TLCExt
CONSTANTS MODE, K

Tup(ty, ns, name, ver, quals, sub) == [type |-> ty, ns |-> ns, name |-> name, ver |-> ver, quals |-> quals, sub |-> sub]
a == <<97>>  b == <<98>>  n == <<110>>  s == <<115>>  t == <<116>>  k == <<107>>  v == <<118>>  one == <<49>>
Tuples == <<
   Tup(t, <<>>, n, <<>>, <<>>, <<>>),                                                           \* minimal
   Tup(t, <<a, b>>, n, one, << <<k, v>> >>, <<s, t>>),                                          \* everything present
   Tup(NPM, << <<64,115>> >>, <<112>>, <<49,46,48>>, <<>>, <<>>),                               \* npm scope @s/p@1.0
   Tup(GOLANG, << <<103,46,99>>, a >>, b, <<>>, <<>>, << <<99,109,100>> >>),                     \* golang g.c/a/b#cmd
   Tup(t, <<>>, n, <<>>, << <<CHECKSUM, <<97,58,48,48,44,98,58,102,102>>>> >>, <<>>),            \* checksum a:00,b:ff
   Tup(t, << <<26085>> >>, <<233>>, <<252>>, << <<k, <<233>>>> >>, << <<223>> >>),                \* non-ASCII everywhere
   Tup(t, << <<97,64,63,35>> >>, <<110,64,63,35>>, <<49,47,63,35>>, << <<k, <<118,47,64,61,58,43,35,38>>>> >>, << <<115,63,64>> >>),  \* separators inside
   Tup(<<97,46,98,43,99,45,49>>, <<>>, n, <<>>, << <<<<107,46,49,45,95>>, v>> >>, <<>>),           \* type a.b+c-1, key k.1-_
   Tup(t, <<>>, n, <<>>, << <<b, <<50>>>>, <<a, one>> >>, <<>>),                                 \* two qualifiers, given unsorted
   Tup(PYPI, <<>>, <<65,95,98>>, one, <<>>, <<>>),                                               \* pypi A_b
   Tup(NUGET, <<>>, <<65,198>>, <<>>, <<>>, <<>>),                                               \* nuget A AE
   Tup(MAVEN, << <<111,46,97>> >>, <<105,111>>, one, <<>>, <<>>),                                \* maven o.a/io@1
   Tup(t, <<>>, <<97,32,34,60,123,37>>, <<32>>, << <<k, <<32,43,37>>>> >>, << <<96,32>> >>),      \* space quote < { % backtick
   Tup(t, << <<46>> >>, n, <<49,47>>, << <<k, <<32>>>> >>, << <<46,46,46>> >>)                    \* ns ".", version ending in '/', value " ", subpath "..."
>>
ASSUME \A i \in 1..Len(Tuples) : LegalTuple(Tuples[i])

VARIABLES ti, c
vars == <<ti, c>>
\* the deviation bound is K, one less for tuples whose canonical spelling is longer than 24 characters when K >= 3
\* (the cross product of their per-character forms exceeds what TLC enumerates in the thorough budget)
KFor(T) == IF K >= 3 /\ Len(Glue(CanonParts(T))) > 24 THEN K - 1 ELSE K
Cases(T) == IF MODE = "spell" THEN {[s |-> x[1], kind |-> "acc", err |-> "", what |-> "spelling", cost |-> x[2]] : x \in Spellings(T, KFor(T))}
            ELSE {[s |-> f.s, kind |-> "err", err |-> f.err, what |-> f.what, cost |-> 0] : f \in Faults(T)}
                 \cup {[s |-> d, kind |-> "rej", err |-> "", what |-> "two faults", cost |-> 0] : d \in DoubleFaults(T)}
Init == ti \in 1..Len(Tuples) /\ c \in Cases(Tuples[ti])
Next == UNCHANGED vars
T == Tuples[ti]

Known == Lookup(T.type).ok
WG0 == IF c.kind = "acc" THEN [j |-> "acc", v |-> CanonOf(T), str |-> Render(CanonOf(T))]
      ELSE IF c.kind = "err" THEN [j |-> "err", err |-> c.err] ELSE [j |-> "rej"]
WT0 == IF c.kind = "acc" THEN (IF Known THEN [j |-> "acc", v |-> TypedCanonOf(T, LowerTab), str |-> Render(TypedCanonOf(T, LowerTab))]
                              ELSE [j |-> "err", err |-> "UnsupportedType"])
      ELSE IF c.kind = "err" /\ Known THEN [j |-> "err", err |-> "Parse:" \o c.err] ELSE [j |-> "rej"]
\* a fault injected into a tuple may bring a second defect with it (no '/' after `maven`: no name and no namespace)
WG == Demote(WG0, AllDefects(c.s, Generic, LowerTab))
WT == Demote(WT0, AllDefects(c.s, Typed, LowerTab))
OutG == ParseF(c.s, Generic, LowerTab)
OutT == ParseF(c.s, Typed, LowerTab)
\* the transcribed parser satisfies what the Writer demands
C02C05_Writer == Agrees(OutG, WG) /\ Agrees(OutT, WT)
\* the two independent oracles never contradict each other
Compatible(j1, j2) == \/ j1.j = "un" \/ j2.j = "un"
                      \/ (j1.j = "acc" /\ j2.j = "acc" /\ j1.v = j2.v)
                      \/ (j1.j \in {"err", "rej"} /\ j2.j \in {"err", "rej"} /\ (j1.j = "err" /\ j2.j = "err" => j1.err = j2.err))
OraclesAgree == Compatible(WG, Judge(c.s, Generic, LowerTab)) /\ Compatible(WT, Judge(c.s, Typed, LowerTab))
\* neither oracle demands an error class where a second defect is present
JudgeOrderFree == /\ OrderFree(WG0, AllDefects(c.s, Generic, LowerTab)) /\ OrderFree(WT0, AllDefects(c.s, Typed, LowerTab))
                  /\ OrderFree(JudgeRaw(c.s, Generic, LowerTab), AllDefects(c.s, Generic, LowerTab))
                  /\ OrderFree(JudgeRaw(c.s, Typed, LowerTab), AllDefects(c.s, Typed, LowerTab))
C01_RoundTrip == OutG.ok => LET cs == FormatSpec(OutG.v)  r == ParseF(cs, Generic, LowerTab) IN r.ok /\ r.v = OutG.v
Emit == PrintT(<<"CASE", ToJson([k |-> "parse", s |-> c.s, what |-> c.what, gj |-> WG, go |-> Outcome(OutG), tj |-> WT, to |-> Outcome(OutT)])>>)
=============================================================================
