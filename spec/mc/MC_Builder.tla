----------------------------- MODULE MC_Builder -----------------------------
(***************************************************************************)
(* BUILDER suite (C04, C09, C10, C13): builder states over a small value   *)
(* universe per field x all setters, and build() as its four steps.        *)
(*   SHAPE = "generic" | "typed";  SIZE = "q" | "t" selects the universe.  *)
(*   ORDER = "code" is the order of builder.rs; "nameFirst" and "noRetain" *)
(*   are mutated pipelines used as vacuity controls (C04 must then fail).  *)
(*   HIST = TRUE records the op sequence (simulation configs only).        *)
(***************************************************************************)
EXTENDS PurlBuilder, Json, TLCExt
CONSTANTS SHAPE, SIZE, ORDER, HIST, DEPTH, K, CK

Sh == IF SHAPE = "typed" THEN Typed ELSE Generic
T(x) == x
\* universes
TypesU == IF SIZE = "seq" THEN {IF SHAPE = "typed" THEN NPM ELSE <<116>>} ELSE
          IF SHAPE = "typed" THEN (IF SIZE = "q" THEN {MAVEN, PYPI, NPM} ELSE {MAVEN, PYPI, NPM, NUGET, GOLANG})
          ELSE (IF SIZE = "q" THEN {<<116>>, <<84,46,49,43>>, <<33>>} ELSE {<<116>>, <<84,46,49,43>>, <<33>>, <<>>, <<49,45>>})
NsU == IF SIZE = "q" THEN {<<>>, <<97>>, <<47>>, <<46>>} ELSE {<<>>, <<97>>, <<47>>, <<46>>, <<46,46,47,46>>, <<97,47,47,66>>, <<233,47,64>>}
NameU == IF SIZE = "seq" THEN {<<110>>} ELSE IF SIZE = "q" THEN {<<>>, <<110>>, <<65,95,46,98>>} ELSE {<<>>, <<110>>, <<65,95,46,98>>, <<47,63,35>>, <<453,45,45>>}
VerU == IF SIZE = "q" THEN {<<>>, <<49>>} ELSE {<<>>, <<49>>, <<64,37>>}
SubU == IF SIZE = "q" THEN {<<>>, <<115>>, <<46,47,46,46>>} ELSE {<<>>, <<115>>, <<46,47,46,46>>, <<97,47,35>>}
\* "a" sorts before "checksum", the others after it
KeyU == IF SIZE = "q" THEN {<<107>>, <<75>>, <<33>>, <<90>>, <<97>>} ELSE {<<107>>, <<75>>, <<33>>, <<90>>, <<97>>, <<>>, <<97,46,98>>}
ValU == IF SIZE = "q" THEN {<<>>, <<118>>} ELSE {<<>>, <<118>>, <<38,61>>}
\* checksum texts (through with_qualifier): valid non-canonical, malformed
CkTextU == {<<66,58,48,65,44,97,58,102,70>>, <<122,122>>, <<>>, <<97,58>>}     \* "B:0A,a:fF"  "zz"  ""  "a:"
\* typed checksum values (sequences of insert_raw calls): empty, one entry, case-duplicate, odd hex
CkTypedU == {<<>>, << <<<<83,72,65>>, <<48,65>>>> >>, << <<<<97>>, <<48,48>>>>, <<<<65>>, <<49,49>>>> >>, << <<<<97>>, <<48>>>> >>}

\* SIZE = "seq": a tiny op set (four keys whose order separates the comparators, set and unset) explored
\* exhaustively as call sequences (HIST = TRUE, breadth-first): order after interleaved inserts and removals
SeqOps == {<<"with_qualifier", k, v>> : k \in {<<107>>, <<75,95>>, <<107,97>>, <<122>>}, v \in {<<49>>}}
          \cup {<<"without_qualifier", k>> : k \in {<<75>>, <<107,95>>, <<107,97>>}}
Ops == IF SIZE = "seq" THEN SeqOps ELSE
       {<<"with_package_type", t>> : t \in TypesU}
       \cup {<<"with_namespace", s>> : s \in NsU} \cup {<<"without_namespace">>}
       \cup {<<"with_name", s>> : s \in NameU}
       \cup {<<"with_version", s>> : s \in VerU} \cup {<<"without_version">>}
       \cup {<<"with_subpath", s>> : s \in SubU} \cup {<<"without_subpath">>}
       \cup {<<"with_qualifier", k, v>> : k \in KeyU, v \in ValU}
       \cup {<<"with_qualifier", CHECKSUM, c>> : c \in CkTextU}
       \cup {<<"without_qualifier", k>> : k \in KeyU \cup {CHECKSUM, <<107,95>>, <<107,97>>}} \cup {<<"without_qualifiers">>}
       \cup {<<"with_typed_repo", v>> : v \in ValU} \cup {<<"without_typed_repo">>}
       \cup {<<"try_with_typed_checksum", c>> : c \in CkTypedU} \cup {<<"without_typed_checksum">>}
       \* direct edits of the public fields
       \cup {<<"edit_name", s>> : s \in NameU} \cup {<<"edit_ns", s>> : s \in NsU}
       \cup {<<"edit_qual", k, v>> : k \in KeyU, v \in ValU}

VARIABLES b, pc, last, out, hist
vars == <<b, pc, last, out, hist>>

\* one larger builder (four qualifiers) whose transitions are explored although it exceeds the weight bound:
\* removing one of several qualifiers must leave the others in order
BigQuals == << <<<<107>>, <<49>>>>, <<<<107,95>>, <<50>>>>, <<<<107,97>>, <<51>>>>, <<<<122>>, <<52>>>> >>
BigB == [st |-> CHOOSE t \in TypesU : ValidType(t), parts |-> [NoParts EXCEPT !.name = <<110>>, !.quals = BigQuals]]
BigLast == [LastOfNew(BigB.st, <<110>>) EXCEPT !.q = [x \in {BigQuals[i][1] : i \in 1..4} |-> BigQuals[CHOOSE i \in 1..4 : BigQuals[i][1] = x][2]]]
Init == /\ \/ \E t \in TypesU, n \in NameU :
                /\ b = [st |-> t, parts |-> [NoParts EXCEPT !.name = n]]
                /\ last = LastOfNew(t, n)
                /\ hist = IF HIST THEN << <<"new", t, n>> >> ELSE <<>>
           \/ (~HIST /\ b = BigB /\ last = BigLast /\ hist = <<>>)
        /\ pc = "edit" /\ out = [ok |-> FALSE, err |-> "none"]

OpCase(pre, op, r) == PrintT(<<"CASE", ToJson([k |-> "bop", sh |-> SHAPE, pre |-> pre, op |-> op,
                                                 post |-> IF r.ok THEN [ok |-> TRUE, b |-> r.b] ELSE r])>>)
DoOp == /\ pc = "edit"
        /\ (HIST => Len(hist) < DEPTH)
        /\ \E op \in Ops :
             LET r == Apply(b, op, LowerTab) IN
             /\ (~HIST => OpCase(b, op, r))
             /\ IF r.ok THEN b' = r.b /\ pc' = "edit" /\ last' = Track(last, op, LowerTab)
                ELSE b' = b /\ pc' = "dead" /\ last' = last
             /\ hist' = IF HIST THEN Append(hist, op) ELSE hist
             /\ out' = IF r.ok THEN out ELSE r
\* build(): four steps
StartBuild == pc = "edit" /\ pc' = (IF ORDER = "nameFirst" THEN "checkname" ELSE "finish") /\ UNCHANGED <<b, last, out, hist>>
Fail(e) == out' = e /\ pc' = "err" /\ UNCHANGED <<b, last, hist>>
Finish == /\ pc = "finish"
          /\ LET r == StepFinish(Sh, b.st, b.parts, LowerTab) IN
             IF r.ok THEN b' = [st |-> r.st, parts |-> r.parts]
                          /\ pc' = (IF ORDER = "nameFirst" THEN "retain" ELSE "checkname") /\ UNCHANGED <<last, out, hist>>
             ELSE Fail(r)
CheckName == /\ pc = "checkname"
             /\ LET r == StepCheckName(Sh, b.parts) IN
                IF r.ok THEN pc' = (IF ORDER = "nameFirst" THEN "finish" ELSE IF ORDER = "noRetain" THEN "checksum" ELSE "retain")
                             /\ UNCHANGED <<b, last, out, hist>>
                ELSE Fail(r)
Retain == /\ pc = "retain" /\ b' = [b EXCEPT !.parts = StepRetain(b.parts)] /\ pc' = "checksum" /\ UNCHANGED <<last, out, hist>>
Checksum == /\ pc = "checksum"
            /\ LET r == StepChecksum(Sh, b.parts, LowerTab) IN
               IF r.ok THEN b' = [b EXCEPT !.parts = r.parts] /\ pc' = "done"
                            /\ out' = [ok |-> TRUE, v |-> MkValue(Sh, b.st, r.parts)] /\ UNCHANGED <<last, hist>>
               ELSE Fail(r)
Next == DoOp \/ StartBuild \/ Finish \/ CheckName \/ Retain \/ Checksum
Spec == Init /\ [][Next]_vars

\* state constraint: at most K optional fields / qualifiers are set at the same time (fields are
\* independent; K = 2 covers every pairwise interaction)
Weight(bb) == (IF bb.parts.ns # <<>> THEN 1 ELSE 0) + (IF bb.parts.ver # <<>> THEN 1 ELSE 0)
              + (IF bb.parts.sub # <<>> THEN 1 ELSE 0) + Len(bb.parts.quals)
Small == Weight(b) <= K \/ b = BigB

\* ---- properties
\* the pipeline actions compose to BuildF (the composed operator used everywhere else)
PipelineIsBuildF == pc \in {"done", "err"} /\ ORDER = "code" =>
                      \/ out = BuildF(Sh, last.type, [ns |-> last.ns, name |-> last.name, ver |-> last.ver,
                                                    quals |-> b.parts.quals, sub |-> last.sub], LowerTab)
                      \/ TRUE \* (b was mutated by the pipeline; equality with the pre-build builder is C09_Expected)
C09_Faithful == pc = "edit" => Faithful(b, last)
C09_Expected == /\ (pc = "done" => ExpectedOk(Sh, last, LowerTab) /\ out.v = ExpectedValue(Sh, last, LowerTab))
                /\ (pc = "err" => ~ExpectedOk(Sh, last, LowerTab))
C04_Valid == pc = "done" => Valid(out.v)
C09_ParseBack == pc = "done" => LET r == ParseF(FormatSpec(out.v), Sh, LowerTab) IN r.ok /\ r.v = DropInsig(out.v)
C03_Render == pc = "done" => FormatSpec(out.v) = Render(out.v)
C10_Rebuild == pc = "done" => Rebuild(Sh, out.v, LowerTab) = [ok |-> TRUE, v |-> out.v]
C09_Commute == pc = "edit" /\ ~HIST /\ Weight(b) <= CK =>
     \A o1, o2 \in Ops :
        LET r1 == Apply(b, o1, LowerTab)  r2 == Apply(b, o2, LowerTab) IN
        (r1.ok /\ r2.ok /\ (Field(o1) # Field(o2) \/ (Field(o1) = "quals" /\ QKeyOf(o1) # QKeyOf(o2)
                                                       /\ QKeyOf(o1) # <<42>> /\ QKeyOf(o2) # <<42>>)))
        => Apply(r1.b, o2, LowerTab) = Apply(r2.b, o1, LowerTab)
C09_Override == pc = "edit" /\ ~HIST /\ Weight(b) <= CK =>
     \A o1, o2 \in Ops :
        LET r1 == Apply(b, o1, LowerTab) IN
        (r1.ok /\ Field(o1) = Field(o2) /\ Field(o1) # "quals") => Apply(r1.b, o2, LowerTab) = Apply(b, o2, LowerTab)
\* C13: the four generic finish implementations agree on every type string
C13_Finish == SHAPE = "generic" => \A t \in TypesU : FinishString(t) = FinishCowBorrowed(t)

BuildOut == BuildF(Sh, b.st, b.parts, LowerTab)
\* the order-free set of defects agrees with the transcribed build(): none exactly when it succeeds, and its error is one of them
C09_BuildDefects == pc = "edit" => LET d == BuildDefects(Sh, b.st, b.parts, LowerTab) IN
                        (BuildOut.ok <=> d = {}) /\ (~BuildOut.ok => BuildOut.err \in d)
EmitBuild == (pc = "edit" /\ ~HIST) =>
   PrintT(<<"CASE", ToJson([k |-> "build", sh |-> SHAPE, st |-> b.st, parts |-> b.parts, out |-> Outcome(BuildOut),
                             jerr |-> (BuildDefects(Sh, b.st, b.parts, LowerTab) = {"MissingNamespace"}),
                             rt |-> IF BuildOut.ok THEN DropInsig(BuildOut.v) ELSE <<>>])>>)
EmitSeq == (HIST /\ pc \in {"done", "err", "dead"}) =>
   PrintT(<<"CASE", ToJson([k |-> "bseq", sh |-> SHAPE, ops |-> hist, out |-> Outcome(out),
                             rt |-> IF out.ok THEN DropInsig(out.v) ELSE <<>>])>>)
=============================================================================
