------------------------------ MODULE MC_System ------------------------------
(***************************************************************************)
(* SYSTEM suite: random sessions (TLC -simulate) of the closed client       *)
(* session of PurlSystem.tla; every behaviour of length DEPTH is replayed   *)
(* on live objects (builder, PURL, string) and the projection is compared   *)
(* after every step.                                                        *)
(***************************************************************************)
EXTENDS Json, TLCExt, PurlBuilder
CONSTANTS SHAPE, DEPTH

Sh == IF SHAPE = "typed" THEN Typed ELSE Generic
MCTypes == IF SHAPE = "typed" THEN {MAVEN, PYPI, NPM, NUGET} ELSE {<<116>>, <<84,46,49,43>>, <<33>>}
MCNames == {<<>>, <<110>>, <<65,95,46,98>>}
\* few ops, so that a random walk also takes Build / Format / Parse / IntoBuilder / Respell often
MCOps == {<<"with_namespace", <<97,47,47,66>>>>, <<"with_namespace", <<64,115>>>>, <<"with_name", <<47,63,35,37>>>>, <<"with_name", <<453,198>>>>,
          <<"with_version", <<64,37,32>>>>, <<"with_subpath", <<46,47,46,46,47,120>>>>, <<"with_qualifier", <<75,95>>, <<38,61,43>>>>,
          <<"with_qualifier", <<107,97>>, <<>>>>, <<"with_qualifier", <<33>>, <<118>>>>,
          <<"with_qualifier", CHECKSUM, <<66,58,48,65,44,97,58,102,70>>>>, <<"with_qualifier", CHECKSUM, <<122,122>>>>, <<"without_qualifiers">>}
         \cup {<<"with_package_type", t>> : t \in MCTypes}
VARIABLES b, v, s, err, log
Sys == INSTANCE PurlSystem WITH Shape <- Sh, TypesU <- MCTypes, NamesU <- MCNames, OpsU <- MCOps
Init == Sys!Init
Next == Len(log) < DEPTH /\ Sys!Next
Spec == Init /\ [][Next]_<<b, v, s, err, log>>
SysValid == Sys!SysValid
SysStringParses == Sys!SysStringParses
SysRebuild == Sys!SysRebuild
Emit == Len(log) = DEPTH => PrintT(<<"CASE", ToJson([k |-> "sys", sh |-> SHAPE, steps |-> log])>>)
=============================================================================
