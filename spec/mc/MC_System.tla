------------------------------ MODULE MC_System ------------------------------
(***************************************************************************)
(* SYSTEM suite: random sessions (TLC -simulate) of the closed client       *)
(* session of PurlSystem.tla (with serde steps, a saved value, comparisons *)
(* and combined names); every behaviour of length DEPTH is replayed on     *)
(* live objects (builder, two PURLs, string) and the projection is         *)
(* compared after every step.                                              *)
(***************************************************************************)
EXTENDS Json, TLCExt, PurlBuilder
CONSTANTS SHAPE, DEPTH

Sh == IF SHAPE = "typed" THEN Typed ELSE Generic
MCTypes == IF SHAPE = "typed" THEN {MAVEN, PYPI, NPM, NUGET} ELSE {<<116>>, <<84,46,49,43>>, <<33>>}
MCNames == {<<>>, <<110>>, <<65,95,46,98>>}
\* few ops, so that a random walk also takes Build / Format / Parse / IntoBuilder / Respell often
MCOps == {<<"with_namespace", <<97,47,47,66>>>>, <<"with_namespace", <<64,115>>>>, <<"with_name", <<47,63,35,37>>>>, <<"with_name", <<453,198>>>>,
          <<"with_version", <<64,37,32>>>>, <<"with_subpath", <<46,47,46,46,47,120>>>>, <<"with_qualifier", <<75,95>>, <<38,61,43>>>>,
          <<"with_qualifier", <<107,97>>, <<>>>>, <<"with_qualifier", <<33>>, <<118>>>>, <<"with_qualifier", <<97>>, <<>>>>, <<"with_qualifier", <<65>>, <<49>>>>,
          <<"with_qualifier", CHECKSUM, <<66,58,48,65,44,97,58,102,70>>>>, <<"with_qualifier", CHECKSUM, <<122,122>>>>, <<"without_qualifiers">>}
         \cup {<<"with_package_type", t>> : t \in MCTypes}
\* combined names for builder_with_combined_name (typed sessions only)
MCComb == IF SHAPE = "typed" THEN {<<97,47,98,47,99>>, <<103,58,97,58,98>>, <<47,110>>, <<110>>} ELSE {}
VARIABLES b, v, w, s, err, log
Sys == INSTANCE PurlSystem WITH Shape <- Sh, TypesU <- MCTypes, NamesU <- MCNames, OpsU <- MCOps, CombU <- MCComb
Init == Sys!Init
\* TLC -simulate picks uniformly among the successor STATES, so a Next with one successor per parameter value
\* would spend the walk on New and Op.  Here every kind of step has one successor (two for Op), its parameters
\* drawn by RandomElement, and a new builder is started only when there is none; every step taken is a step of Sys!Next.
One(S) == {RandomElement(S)}
Next == /\ Len(log) < DEPTH
        /\ \/ ~b.some /\ \E t \in One(MCTypes), n \in One(MCNames) : Sys!New(t, n)
           \/ ~b.some /\ MCComb # {} /\ \E t \in One(MCTypes), c \in One(MCComb) : Sys!NewCombined(t, c)
           \/ \E op \in One(MCOps) : Sys!Op(op)
           \/ \E op \in One(MCOps) : Sys!Op(op)
           \/ Sys!Build \/ Sys!IntoBuilder \/ Sys!Save \/ Sys!Swap \/ Sys!Compare \/ Sys!CombinedName
           \/ \E how \in One({"format", "ser"}) : Sys!Format(how)
           \/ \E how \in One({"parse", "de"}) : Sys!Parse(how)
           \/ \E m \in One({"slashes", "uppertype", "lowerhex"}) : Sys!Respell(m)
Spec == Init /\ [][Next]_<<b, v, w, s, err, log>>
SysValid == Sys!SysValid
SysStringParses == Sys!SysStringParses
SysRebuild == Sys!SysRebuild
SysCompare == Sys!SysCompare
SysSavedValid == Sys!SysSavedValid
Emit == Len(log) = DEPTH => PrintT(<<"CASE", ToJson([k |-> "sys", sh |-> SHAPE, steps |-> log])>>)
=============================================================================
