-------------------------- MODULE QualSortedInd --------------------------
(***************************************************************************)
(* Bonus beyond bounded TLC (DESIGN 9, 13.8): an inductive argument, for   *)
(* ARBITRARY integer keys, that the vector behind `Qualifiers` (C11, C04)  *)
(* stays strictly ascending.  Keys are abstracted to their rank in the     *)
(* order of ASCII-lower-cased keys; the vector is (len, a) with capacity   *)
(* MaxLen; `Find` is the contract of `binary_search_by` on a sorted slice  *)
(* (the code relies on nothing else): the number p of elements below k.    *)
(* Actions mirror qualifiers.rs: insert (replace or shift right), remove   *)
(* (shift left), retain (drop any position, repeated), clear.              *)
(* apalache-mc check --init=Init    --inv=IndInv --length=0                *)
(* apalache-mc check --init=IndInit --inv=IndInv --length=1                *)
(***************************************************************************)
EXTENDS Integers, Apalache

MaxLen == 6
Idx == 1..MaxLen

VARIABLES
  \* @type: Int;
  len,
  \* @type: Int -> Int;
  a

TypeOK == len \in 0..MaxLen /\ DOMAIN a = Idx
Sorted == \A i \in Idx : \A j \in Idx : (i < j /\ j <= len) => a[i] < a[j]
IndInv == TypeOK /\ Sorted

\* contract of binary search on a strictly ascending slice
\* @type: (Int, Int) => Bool;
Find(k, p) == /\ p \in 0..MaxLen /\ p <= len
              /\ \A i \in Idx : (i <= p) => a[i] < k
              /\ \A i \in Idx : (p < i /\ i <= len) => a[i] >= k

Insert == \E k \in Int : \E p \in 0..MaxLen :
  /\ Find(k, p)
  /\ IF p < len /\ a[p + 1] = k
     THEN UNCHANGED <<len, a>>                       \* occupied: value replaced, keys unchanged
     ELSE /\ len < MaxLen
          /\ len' = len + 1
          /\ a' = [ i \in Idx |-> IF i <= p THEN a[i] ELSE IF i = p + 1 THEN k ELSE a[i - 1] ]

Remove == \E k \in Int : \E p \in 0..MaxLen :
  /\ Find(k, p)
  /\ IF p < len /\ a[p + 1] = k
     THEN /\ len' = len - 1
          /\ a' = [ i \in Idx |-> IF i <= p THEN a[i] ELSE IF i < MaxLen THEN a[i + 1] ELSE a[i] ]
     ELSE UNCHANGED <<len, a>>

RetainDrop == \E p \in 0..MaxLen :                    \* retain(f) = any number of these
  /\ p < len
  /\ len' = len - 1
  /\ a' = [ i \in Idx |-> IF i <= p THEN a[i] ELSE IF i < MaxLen THEN a[i + 1] ELSE a[i] ]

Clear == len' = 0 /\ UNCHANGED a
Stutter == UNCHANGED <<len, a>>

Init == len = 0 /\ a = [ i \in Idx |-> 0 ]
IndInit == /\ len \in 0..MaxLen
           /\ a = Gen(MaxLen)
           /\ IndInv
Next == Insert \/ Remove \/ RetainDrop \/ Clear \/ Stutter
=============================================================================
