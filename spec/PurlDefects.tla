---------------------------- MODULE PurlDefects ----------------------------
(***************************************************************************)
(* What is wrong with a string, stated without an order of evaluation.     *)
(*                                                                         *)
(* PurlParse!ParseF reports the FIRST defect in the order in which the     *)
(* library happens to look (subpath, qualifiers, type, conversion,         *)
(* version, namespace, name, then build(): hook, name, checksum).  The     *)
(* properties fix an error class only "when that defect is the only one"   *)
(* (C05), so every oracle that demands a class must do so only when the    *)
(* SET of defects present is a singleton - otherwise a maintainer who      *)
(* reorders two independent checks would be reported.  This module         *)
(* computes that set:                                                      *)
(*   Analyse(s)     per component, for any shape (used by ShapeMachine)    *)
(*   AllDefects(..) the same plus what the built-in shapes' conversion and *)
(*                  build() refuse                                         *)
(* MC_Parse / MC_Spell check that the independent reader (PurlGrammar)     *)
(* demands a class only where AllDefects is that singleton                 *)
(* (JudgeOrderFree), and that it is empty wherever the reader accepts.     *)
(***************************************************************************)
EXTENDS PurlParse, FiniteSets

NoInfo == [scheme |-> FALSE, typeKnown |-> FALSE, type |-> <<>>, defects |-> {}, clean |-> FALSE, parts |-> NoParts]

(***************************************************************************)
(* Analysis of an input string by component, with no order among the       *)
(* components.  `defects` is the set of error classes of all the generic   *)
(* defects present; it is empty exactly when ParseFront and ParseBack both *)
(* succeed (InfoMatchesParse, checked by MC_Shapes), and then `parts` is   *)
(* what they produce.                                                      *)
(***************************************************************************)
RECURSIVE QualItemDefects(_, _)
QualItemDefects(items, seen) ==
   IF items = <<>> THEN {}
   ELSE LET it == items[1]  e == FirstIdx(it, EQ) IN
        IF e = 0 THEN {"InvalidQualifier"} \cup QualItemDefects(Tail(items), seen)
        ELSE LET k == Take(it, e - 1)  d == Decode(Drop(it, e)) IN
             (IF ~ValidKey(k) \/ ALowerS(k) \in seen THEN {"InvalidQualifier"} ELSE {})
             \cup (IF ~d.ok THEN {"InvalidEscape"} ELSE {})
             \* as in DecQuals, only a key that was given a non-empty value occupies its slot
             \cup QualItemDefects(Tail(items), IF ValidKey(k) /\ d.ok /\ d.s # <<>> THEN seen \cup {ALowerS(k)} ELSE seen)
Analyse(s) ==
  IF ~StartsWith(s, PKG) THEN [NoInfo EXCEPT !.defects = {"UnsupportedUrlScheme"}] ELSE
  LET s1 == TrimStart(Drop(s, 4), SLASH)
      ih == LastIdx(s1, HASH)
      s2 == IF ih = 0 THEN s1 ELSE Take(s1, ih - 1)
      iq == LastIdx(s2, QM)
      s3 == IF iq = 0 THEN s2 ELSE Take(s2, iq - 1)
      it == FirstIdx(s3, SLASH)
      type == IF it = 0 THEN s3 ELSE Take(s3, it - 1)
      dSub == IF ih # 0 /\ ~DecodeSubpath(Drop(s1, ih)).ok THEN {"InvalidEscape"} ELSE {}
      dQ == IF iq = 0 THEN {} ELSE QualItemDefects(Split(Drop(s2, iq), AMP), {})
      \* without a type there cannot be a name either: that is the one defect "no type" (C05 demands MissingType for it)
      dType == (IF s3 = <<>> THEN {"MissingType"} ELSE {})
               \cup (IF s3 # <<>> /\ it = 0 THEN {"MissingName"} ELSE {})
               \cup (IF s3 # <<>> /\ ~ValidType(type) THEN {"InvalidPackageType"} ELSE {})
      bk == IF it = 0 THEN [ok |-> TRUE] ELSE ParseBack([rest |-> Drop(s3, it), q |-> <<>>, sub |-> <<>>])
      dBack == IF bk.ok THEN {} ELSE {bk.err}
      f == ParseFront(s)
      all == dSub \cup dQ \cup dType \cup dBack
  IN [scheme |-> TRUE, typeKnown |-> (type # <<>> /\ ValidType(type)), type |-> type, defects |-> all, clean |-> all = {},
      parts |-> IF all = {} /\ f.ok THEN ParseBack(f).parts ELSE NoParts]
\* design-level: the order-free analysis agrees with the transcribed parser on what is clean, and contains its error
InfoMatchesParse(s) ==
  LET a == Analyse(s)  f == ParseFront(s) IN
  /\ a.clean <=> (f.ok /\ ParseBack(f).ok)
  /\ (~f.ok => f.err \in a.defects)
  /\ ((f.ok /\ ~ParseBack(f).ok) => ParseBack(f).err \in a.defects)
  /\ (f.ok => (a.typeKnown /\ a.type = f.type))


\* the raw pieces behind the type, cut as ParseBack cuts them (no decoding)
BackCut(rest) ==
  LET ia == LastIdx(rest, AT)
      s5 == IF ia = 0 THEN rest ELSE Take(rest, ia - 1)
      in == LastIdx(s5, SLASH)
  IN [nsRaw |-> IF in = 0 THEN <<>> ELSE Take(s5, in - 1), nameRaw |-> IF in = 0 THEN s5 ELSE Drop(s5, in)]
\* every class of defect present in s for a built-in shape, whatever the order in which one looks
AllDefects(s, shape, tab) ==
  LET a == Analyse(s)
      W(e) == WrapErr(shape, e)
  IN IF ~a.scheme THEN {W(e) : e \in a.defects} ELSE
  LET s1 == TrimStart(Drop(s, 4), SLASH)
      ih == LastIdx(s1, HASH)
      s2 == IF ih = 0 THEN s1 ELSE Take(s1, ih - 1)
      iq == LastIdx(s2, QM)
      s3 == IF iq = 0 THEN s2 ELSE Take(s2, iq - 1)
      it == FirstIdx(s3, SLASH)
      items == IF iq = 0 THEN <<>> ELSE Split(Drop(s2, iq), AMP)
      cut == BackCut(IF it = 0 THEN <<>> ELSE Drop(s3, it))
      nm == Decode(cut.nameRaw)
      ns == DecodeNamespace(cut.nsRaw)
      ckBad == \E i \in 1..Len(items) :
                  LET e == FirstIdx(items[i], EQ) IN
                  /\ e # 0 /\ ALowerS(Take(items[i], e - 1)) = CHECKSUM
                  /\ LET d == Decode(Drop(items[i], e)) IN d.ok /\ d.s # <<>> /\ ~CkCanon(d.s, tab).ok
      conv == IF a.typeKnown THEN ShapeConv(shape, a.type) ELSE [ok |-> TRUE]
  IN {W(e) : e \in a.defects}
     \cup (IF ~conv.ok THEN {conv.err} ELSE {})
     \cup (IF it # 0 /\ nm.ok /\ nm.s = <<>> THEN {W("MissingName")} ELSE {})
     \cup (IF ckBad THEN {W("InvalidQualifier")} ELSE {})
     \cup (IF shape.kind = "typed" /\ a.typeKnown /\ ALowerS(a.type) = MAVEN /\ ns.ok /\ ns.s = <<>> THEN {"MissingNamespace"} ELSE {})
\* An oracle's verdict and the set of defects: acceptance only without any defect; a demanded class must be one of
\* the defects present, and it stays demanded only if it is the only one - next to another defect the class is free.
OrderFree(jd, d) == (jd.j = "acc" => d = {}) /\ (jd.j = "err" => jd.err \in d)
Demote(jd, d) == IF jd.j = "err" /\ d # {jd.err} THEN [j |-> "rej"] ELSE jd
=============================================================================
