----------------------------- MODULE PurlParse -----------------------------
(***************************************************************************)
(* FromStr for GenericPurl<T> (parse.rs:167-299), transcribed step by      *)
(* step.  ParseF is the composition; ParseMachine.tla runs the same step   *)
(* operators as a pc-state machine.                                        *)
(***************************************************************************)
EXTENDS PurlBuild

DotSeg(g) == g \in {<<DOT>>, <<DOT, DOT>>}

\* decode_subpath / decode_namespace: skipDots distinguishes them
RECURSIVE DecSegs(_, _, _)
DecSegs(segs, skipDots, acc) ==
   IF segs = <<>> THEN [ok |-> TRUE, s |-> Join(acc, SLASH)]
   ELSE LET g == segs[1] IN
        IF g = <<>> \/ (skipDots /\ DotSeg(g)) THEN DecSegs(Tail(segs), skipDots, acc)
        ELSE LET d == Decode(g) IN
             IF ~d.ok THEN Err("InvalidEscape")
             ELSE IF Contains(d.s, SLASH) \/ (skipDots /\ DotSeg(d.s)) THEN Err("InvalidEscape")
             ELSE DecSegs(Tail(segs), skipDots, Append(acc, d.s))
DecodeSubpath(s) == DecSegs(Split(Trim(s, SLASH), SLASH), TRUE, <<>>)
DecodeNamespace(s) == DecSegs(Split(Trim(s, SLASH), SLASH), FALSE, <<>>)

\* decode_qualifiers: split '&', split_once '=', entry(k)? must be Vacant, decode, skip empty
RECURSIVE DecQuals(_, _)
DecQuals(items, q) ==
   IF items = <<>> THEN [ok |-> TRUE, q |-> q]
   ELSE LET it == items[1]  e == FirstIdx(it, EQ) IN
        IF e = 0 THEN Err("InvalidQualifier")
        ELSE LET k == Take(it, e - 1)  v == Drop(it, e) IN
             IF ~ValidKey(k) THEN Err("InvalidQualifier")
             ELSE IF QHas(q, ALowerS(k)) THEN Err("InvalidQualifier")
             ELSE LET d == Decode(v) IN
                  IF ~d.ok THEN Err("InvalidEscape")
                  ELSE IF d.s = <<>> THEN DecQuals(Tail(items), q)
                  ELSE DecQuals(Tail(items), QInsert(q, ALowerS(k), d.s))

\* T::from_str on the (already validated) type substring
ShapeConv(shape, t) ==
   IF shape.kind = "generic" THEN [ok |-> TRUE, st |-> t]
   ELSE IF shape.kind = "test" THEN (IF shape.conv THEN [ok |-> TRUE, st |-> t] ELSE Err("ConvError"))
   ELSE LET r == Lookup(t) IN IF r.ok THEN [ok |-> TRUE, st |-> r.t] ELSE Err("UnsupportedType")

(***************************************************************************)
(* from_str in three stages, so that the same operators serve the composed *)
(* ParseF and the step machine of ShapeMachine.tla (C14: where the user's  *)
(* conversion and hook are called).                                        *)
(*   ParseFront : scheme, slashes, '#', '?', empty check, type split and   *)
(*                type syntax check (parse.rs:172-207)                     *)
(*   ShapeConv  : T::from_str(type) (parse.rs:209)                         *)
(*   ParseBack  : '@', last '/', namespace, name (parse.rs:211-228)        *)
(*   BuildF     : build() (parse.rs:230)                                   *)
(***************************************************************************)
ParseFront(s) ==
  IF ~StartsWith(s, PKG) THEN Err("UnsupportedUrlScheme") ELSE
  LET s1 == TrimStart(Drop(s, 4), SLASH)
      ih == LastIdx(s1, HASH)
      rsub == IF ih = 0 THEN [ok |-> TRUE, s |-> <<>>] ELSE DecodeSubpath(Drop(s1, ih))
      s2 == IF ih = 0 THEN s1 ELSE Take(s1, ih - 1)
  IN IF ~rsub.ok THEN rsub ELSE
  LET iq == LastIdx(s2, QM)
      rq == IF iq = 0 THEN [ok |-> TRUE, q |-> <<>>] ELSE DecQuals(Split(Drop(s2, iq), AMP), <<>>)
      s3 == IF iq = 0 THEN s2 ELSE Take(s2, iq - 1)
  IN IF ~rq.ok THEN rq ELSE
  IF s3 = <<>> THEN Err("MissingType") ELSE
  LET it == FirstIdx(s3, SLASH) IN
  IF it = 0 THEN Err("MissingName") ELSE
  LET type == Take(s3, it - 1) IN
  IF ~ValidType(type) THEN Err("InvalidPackageType")
  ELSE [ok |-> TRUE, type |-> type, rest |-> Drop(s3, it), q |-> rq.q, sub |-> rsub.s]
ParseBack(f) ==
  LET s4 == f.rest
      ia == LastIdx(s4, AT)
      rver == IF ia = 0 THEN [ok |-> TRUE, s |-> <<>>] ELSE Decode(Drop(s4, ia))
      s5 == IF ia = 0 THEN s4 ELSE Take(s4, ia - 1)
  IN IF ~rver.ok THEN Err("InvalidEscape") ELSE
  LET in == LastIdx(s5, SLASH)
      rns == IF in = 0 THEN [ok |-> TRUE, s |-> <<>>] ELSE DecodeNamespace(Take(s5, in - 1))
      rawname == IF in = 0 THEN s5 ELSE Drop(s5, in)
  IN IF ~rns.ok THEN rns ELSE
  LET rname == Decode(rawname) IN
  IF ~rname.ok THEN Err("InvalidEscape")
  ELSE [ok |-> TRUE, parts |-> [ns |-> rns.s, name |-> rname.s, ver |-> rver.s, quals |-> f.q, sub |-> f.sub]]
ParseF(s, shape, tab) ==
  LET f == ParseFront(s) IN
  IF ~f.ok THEN Err(WrapErr(shape, f.err)) ELSE
  LET conv == ShapeConv(shape, f.type) IN
  IF ~conv.ok THEN conv ELSE
  LET bk == ParseBack(f) IN
  IF ~bk.ok THEN Err(WrapErr(shape, bk.err)) ELSE
  BuildF(shape, conv.st, bk.parts, tab)

\* outcome as printed in cases: value plus canonical string
Outcome(r) == IF r.ok THEN [ok |-> TRUE, v |-> r.v, str |-> IF ValidType(r.v.type) THEN FormatSpec(r.v) ELSE [panic |-> TRUE]] ELSE r
=============================================================================
