----------------------------- MODULE PurlParse -----------------------------
(***************************************************************************)
(* FromStr for GenericPurl<T> (parse.rs:167-299), transcribed step by      *)
(* step.  ParseF is the composition; ParseMachine.tla runs the same step   *)
(* operators as a pc-state machine.                                        *)
(***************************************************************************)
EXTENDS PurlBuild

DotSeg(g) == g \in {<<DOT>>, <<DOT, DOT>>}

\* decode_subpath / decode_namespace: skipDots distinguishes them
RECURSIVE DecSegs(_, _, _)
DecSegs(segs, skipDots, acc) ==
   IF segs = <<>> THEN [ok |-> TRUE, s |-> Join(acc, SLASH)]
   ELSE LET g == segs[1] IN
        IF g = <<>> \/ (skipDots /\ DotSeg(g)) THEN DecSegs(Tail(segs), skipDots, acc)
        ELSE LET d == Decode(g) IN
             IF ~d.ok THEN Err("InvalidEscape")
             ELSE IF Contains(d.s, SLASH) \/ (skipDots /\ DotSeg(d.s)) THEN Err("InvalidEscape")
             ELSE DecSegs(Tail(segs), skipDots, Append(acc, d.s))
DecodeSubpath(s) == DecSegs(Split(Trim(s, SLASH), SLASH), TRUE, <<>>)
DecodeNamespace(s) == DecSegs(Split(Trim(s, SLASH), SLASH), FALSE, <<>>)

\* decode_qualifiers: split '&', split_once '=', entry(k)? must be Vacant, decode, skip empty
RECURSIVE DecQuals(_, _)
DecQuals(items, q) ==
   IF items = <<>> THEN [ok |-> TRUE, q |-> q]
   ELSE LET it == items[1]  e == FirstIdx(it, EQ) IN
        IF e = 0 THEN Err("InvalidQualifier")
        ELSE LET k == Take(it, e - 1)  v == Drop(it, e) IN
             IF ~ValidKey(k) THEN Err("InvalidQualifier")
             ELSE IF QHas(q, ALowerS(k)) THEN Err("InvalidQualifier")
             ELSE LET d == Decode(v) IN
                  IF ~d.ok THEN Err("InvalidEscape")
                  ELSE IF d.s = <<>> THEN DecQuals(Tail(items), q)
                  ELSE DecQuals(Tail(items), QInsert(q, ALowerS(k), d.s))

\* T::from_str on the (already validated) type substring
ShapeConv(shape, t) ==
   IF shape.kind = "generic" THEN [ok |-> TRUE, st |-> t]
   ELSE IF shape.kind = "test" THEN (IF shape.conv THEN [ok |-> TRUE, st |-> t] ELSE Err("ConvError"))
   ELSE LET r == Lookup(t) IN IF r.ok THEN [ok |-> TRUE, st |-> r.t] ELSE Err("UnsupportedType")

ParseF(s, shape, tab) ==
  LET E(e) == Err(WrapErr(shape, e)) IN
  IF ~StartsWith(s, PKG) THEN E("UnsupportedUrlScheme") ELSE
  LET s1 == TrimStart(Drop(s, 4), SLASH)
      ih == LastIdx(s1, HASH)
      rsub == IF ih = 0 THEN [ok |-> TRUE, s |-> <<>>] ELSE DecodeSubpath(Drop(s1, ih))
      s2 == IF ih = 0 THEN s1 ELSE Take(s1, ih - 1)
  IN IF ~rsub.ok THEN E(rsub.err) ELSE
  LET iq == LastIdx(s2, QM)
      rq == IF iq = 0 THEN [ok |-> TRUE, q |-> <<>>] ELSE DecQuals(Split(Drop(s2, iq), AMP), <<>>)
      s3 == IF iq = 0 THEN s2 ELSE Take(s2, iq - 1)
  IN IF ~rq.ok THEN E(rq.err) ELSE
  IF s3 = <<>> THEN E("MissingType") ELSE
  LET it == FirstIdx(s3, SLASH) IN
  IF it = 0 THEN E("MissingName") ELSE
  LET type == Take(s3, it - 1)
      s4 == Drop(s3, it)
  IN IF ~ValidType(type) THEN E("InvalidPackageType") ELSE
  LET conv == ShapeConv(shape, type) IN
  IF ~conv.ok THEN conv ELSE
  LET ia == LastIdx(s4, AT)
      rver == IF ia = 0 THEN [ok |-> TRUE, s |-> <<>>] ELSE Decode(Drop(s4, ia))
      s5 == IF ia = 0 THEN s4 ELSE Take(s4, ia - 1)
  IN IF ~rver.ok THEN E("InvalidEscape") ELSE
  LET in == LastIdx(s5, SLASH)
      rns == IF in = 0 THEN [ok |-> TRUE, s |-> <<>>] ELSE DecodeNamespace(Take(s5, in - 1))
      rawname == IF in = 0 THEN s5 ELSE Drop(s5, in)
  IN IF ~rns.ok THEN E(rns.err) ELSE
  LET rname == Decode(rawname) IN
  IF ~rname.ok THEN E("InvalidEscape") ELSE
  BuildF(shape, conv.st, [ns |-> rns.s, name |-> rname.s, ver |-> rver.s, quals |-> rq.q, sub |-> rsub.s], tab)

\* outcome as printed in cases: value plus canonical string
Outcome(r) == IF r.ok THEN [ok |-> TRUE, v |-> r.v, str |-> FormatSpec(r.v)] ELSE r
=============================================================================
