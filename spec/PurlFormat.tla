---------------------------- MODULE PurlFormat ----------------------------
(***************************************************************************)
(* Display for GenericPurl (format.rs).                                    *)
(*                                                                         *)
(*  FormatSpec : transcription of the code - the escape sets are built by  *)
(*               the same .add chains from the WHATWG sets.                *)
(*  Render     : independent renderer written from the wording of C03.     *)
(* The FORMAT models compare the two on every character / position.        *)
(*                                                                         *)
(* A PURL value is a record [type, ns, name, ver, quals, sub]; quals is a  *)
(* sequence of <<key, value>> pairs in ascending key order; the empty      *)
(* sequence means "absent" (as in PurlParts).                              *)
(***************************************************************************)
EXTENDS PurlText

CONTROLS == (0..31) \cup {127}                                  \* percent_encoding::CONTROLS
FRAGMENT == CONTROLS \cup {32, 34, 60, 62, 96}                  \* format.rs:10
QUERY == CONTROLS \cup {32, 34, 35, 60, 62}                     \* format.rs:13
PATH == QUERY \cup {63, 96, 123, 125}                           \* format.rs:16
PURL_PATH == PATH \cup {64, 63, 35, 37}                         \* format.rs:22
PURL_PATH_SEGMENT == PURL_PATH \cup {47}                        \* format.rs:23
\* format.rs:26 as pinned (no '&'): kept to reproduce defect D1 on the model
PURL_QUERY_PINNED == QUERY \cup {64, 63, 35, 43, 37}
PURL_QUERY == PURL_QUERY_PINNED \cup {38}                       \* repaired: '&' escaped
PURL_FRAGMENT == FRAGMENT \cup {64, 63, 35, 37}                 \* format.rs:27

RECURSIVE FmtQuals(_, _, _)
FmtQuals(q, first, QS) ==
   IF q = <<>> THEN <<>>
   ELSE <<IF first THEN QM ELSE AMP>> \o PctEnc(q[1][1], QS) \o <<EQ>> \o PctEnc(q[1][2], QS)
        \o FmtQuals(Tail(q), FALSE, QS)

FormatWith(v, QS) ==
   PKG \o v.type \o <<SLASH>>
   \o (IF v.ns # <<>> THEN PctEnc(v.ns, PURL_PATH) \o <<SLASH>> ELSE <<>>)
   \o PctEnc(v.name, PURL_PATH_SEGMENT)
   \o (IF v.ver # <<>> THEN <<AT>> \o PctEnc(v.ver, PURL_PATH) ELSE <<>>)
   \o FmtQuals(v.quals, TRUE, QS)
   \o (IF v.sub # <<>> THEN <<HASH>> \o PctEnc(v.sub, PURL_FRAGMENT) ELSE <<>>)
FormatSpec(v) == FormatWith(v, PURL_QUERY)
FormatPinned(v) == FormatWith(v, PURL_QUERY_PINNED)
\* Display with the documented panic for a shape reporting an invalid type string
DisplayOutcome(v) == IF ValidType(v.type) THEN [ok |-> TRUE, str |-> FormatSpec(v)] ELSE [panic |-> TRUE]

(***************************************************************************)
(* Render: from C03 only.  "every byte that is a control character, DEL,   *)
(* space, non-ASCII, '"', '<', '>', '%', '@', '?' or '#' - and             *)
(* additionally '`', '{', '}' in namespace, name and version, '/' in the   *)
(* name, '+' and '&' in qualifier values, '`' in the subpath - is written  *)
(* as %XX with upper-case hex digits, and no other character is escaped."  *)
(* (qualifier keys are [a-z0-9._-]+ and need no escaping; they are put     *)
(* through the value rule, which leaves them unchanged.)                   *)
(***************************************************************************)
RCommon == {c \in 0..127 : c < 32 \/ c = 127} \cup {32, 34, 60, 62, 37, 64, 63, 35}
RExtra(pos) == CASE pos = "ns"   -> {96, 123, 125}
                 [] pos = "name" -> {96, 123, 125, 47}
                 [] pos = "ver"  -> {96, 123, 125}
                 [] pos = "qual" -> {43, 38}
                 [] pos = "sub"  -> {96}
RHex(n) == IF n < 10 THEN 48 + n ELSE 65 + (n - 10)
REsc(b) == <<37, RHex(b \div 16), RHex(b % 16)>>
RByte(b, pos) == IF b >= 128 \/ b \in RCommon \/ b \in RExtra(pos) THEN REsc(b) ELSE <<b>>
RECURSIVE RBytes(_, _)
RBytes(bs, pos) == IF bs = <<>> THEN <<>> ELSE RByte(bs[1], pos) \o RBytes(Tail(bs), pos)
RComp(s, pos) == RBytes(Utf8EncS(s), pos)
RECURSIVE RPairs(_)
RPairs(q) == IF q = <<>> THEN <<>>
             ELSE RComp(q[1][1], "qual") \o <<61>> \o RComp(q[1][2], "qual")
                  \o (IF Len(q) > 1 THEN <<38>> \o RPairs(Tail(q)) ELSE <<>>)
Render(v) == <<112, 107, 103, 58>> \o v.type \o <<47>>
             \o (IF v.ns = <<>> THEN <<>> ELSE RComp(v.ns, "ns") \o <<47>>)
             \o RComp(v.name, "name")
             \o (IF v.ver = <<>> THEN <<>> ELSE <<64>> \o RComp(v.ver, "ver"))
             \o (IF v.quals = <<>> THEN <<>> ELSE <<63>> \o RPairs(v.quals))
             \o (IF v.sub = <<>> THEN <<>> ELSE <<35>> \o RComp(v.sub, "sub"))

\* "The output is therefore printable ASCII"
PrintableAscii(s) == \A i \in 1..Len(s) : s[i] >= 33 /\ s[i] <= 126
CountOf(s, c) == Cardinality({i \in 1..Len(s) : s[i] = c})
=============================================================================
