------------------------------ MODULE Checksum ------------------------------
(***************************************************************************)
(* The typed checksum value (well_known.rs:98-276): a hash map from        *)
(* algorithm name to hex text whose iteration order is arbitrary.          *)
(* The state is a function algs : name -> hex.  CkApply(algs, op) gives    *)
(* the new map and the result of the call.  Iteration order is modelled as *)
(* a set of pairs (any order may be observed); ToTextVia(enum) is the      *)
(* serialisation the code performs on one particular enumeration of the    *)
(* map - C12 demands that it does not depend on the enumeration.           *)
(***************************************************************************)
EXTENDS Qualifiers

CkPairs(algs) == LET ks == SortStrs(DOMAIN algs) IN [i \in 1..Len(ks) |-> <<ks[i], algs[ks[i]]>>]
RECURSIVE HexEnc(_)                                      \* hex::encode: lower-case digits
HexEnc(bytes) == IF bytes = <<>> THEN <<>> ELSE <<HexLo(bytes[1] \div 16), HexLo(bytes[1] % 16)>> \o HexEnc(Tail(bytes))
RECURSIVE HexDecPairs(_)
HexDecPairs(h) == IF h = <<>> THEN <<>> ELSE <<16 * HexVal(h[1]) + HexVal(h[2])>> \o HexDecPairs(Drop(h, 2))
HexDec(h) == IF All(IsHex, h) /\ Len(h) % 2 = 0 THEN [ok |-> TRUE, bytes |-> HexDecPairs(h)] ELSE [ok |-> FALSE, err |-> "FromHexError"]

\* sort an enumeration (sequence of <<alg, hex>> with distinct algs) by algorithm
RECURSIVE SortByAlg(_)
SortByAlg(e) == IF e = <<>> THEN <<>>
                ELSE LET i == CHOOSE i \in 1..Len(e) : \A j \in 1..Len(e) : i = j \/ LexLess(e[i][1], e[j][1])
                     IN <<e[i]>> \o SortByAlg(Take(e, i - 1) \o Drop(e, i))
ToTextVia(enum) == CkText(SortByAlg(enum))
ToText(algs) == CkText(CkPairs(algs))
\* all enumerations of the map
RECURSIVE Perms(_)
Perms(S) == IF S = {} THEN {<<>>} ELSE UNION {{<<x>> \o p : p \in Perms(S \ {x})} : x \in S}
Enumerations(algs) == Perms({<<k, algs[k]>> : k \in DOMAIN algs})
RECURSIVE MapOfPairs(_)
MapOfPairs(a) == IF a = <<>> THEN EmptyFn ELSE FnSet(MapOfPairs(Tail(a)), a[1][1], a[1][2])

C(algs, res) == [algs |-> algs, res |-> res]
CkApply(algs, op, tab) ==
  LET a == IF Len(op) >= 2 THEN op[2] ELSE <<>> IN
  CASE op[1] = "insert_raw" ->
         \* get_mut(algorithm) is case-sensitive; otherwise insert under the lower-cased name
         IF a \in DOMAIN algs THEN C(FnSet(algs, a, op[3]), [unit |-> TRUE])
         ELSE C(FnSet(algs, LowerS(a, tab), op[3]), [unit |-> TRUE])
    [] op[1] = "insert_bytes" ->
         IF a \in DOMAIN algs THEN C(FnSet(algs, a, HexEnc(op[3])), [unit |-> TRUE])
         ELSE C(FnSet(algs, LowerS(a, tab), HexEnc(op[3])), [unit |-> TRUE])
    [] op[1] = "remove" -> C(FnDel(algs, a), [unit |-> TRUE])
    [] op[1] = "get_raw" -> C(algs, IF a \in DOMAIN algs THEN Some(algs[a]) ELSE None)
    [] op[1] = "get_bytes" -> C(algs, IF a \notin DOMAIN algs THEN [ok |-> TRUE, some |-> FALSE]
                                      ELSE LET d == HexDec(algs[a]) IN
                                           IF d.ok THEN [ok |-> TRUE, some |-> TRUE, bytes |-> d.bytes] ELSE d)
    [] op[1] = "entries" -> C(algs, [entries |-> CkPairs(algs)])         \* iter() / algorithms(), sorted by the observer
    [] op[1] = "to_text" -> C(algs, LET t == ToText(algs) IN IF t.ok THEN [ok |-> TRUE, s |-> t.s] ELSE t)
    [] op[1] = "from_text" -> LET p == CkParse(a, tab) IN
                              IF p.ok THEN C(MapOfPairs(p.a), [ok |-> TRUE]) ELSE C(algs, [ok |-> FALSE, err |-> "InvalidQualifier"])
=============================================================================
