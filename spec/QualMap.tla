------------------------------ MODULE QualMap ------------------------------
(***************************************************************************)
(* The reference behaviour of C11 as a specification of its own: a map     *)
(* from ASCII-lower-cased keys to values.  (The value each call returns is *)
(* compared in MC_Qual's step invariant; keeping it as a variable here     *)
(* multiplied the state space by the ~35 distinct results.)                *)
(* MC_Qual checks that the implementation-shaped QualVec machine refines   *)
(* this specification (INSTANCE QualMap WITH m <- Abs(vec)).               *)
(***************************************************************************)
EXTENDS Qualifiers
CONSTANT Ops
VARIABLES m
Init == m = EmptyFn
Next == \E op \in Ops : m' = MapApply(m, op, LowerTab).m
Spec == Init /\ [][Next]_m
=============================================================================
