----------------------------- MODULE PurlWriter -----------------------------
(***************************************************************************)
(* The Writer: all spellings of a component tuple that the PURL grammar    *)
(* permits (C02), and the single faults of C05 injected into a spelling.   *)
(* This is the second independent oracle for the parser, next to the       *)
(* left-to-right reader of PurlGrammar: it never looks at how a string is  *)
(* split, it only knows how a string is put together.                      *)
(*                                                                         *)
(* A tuple is [type, ns (sequence of segments), name, ver, quals (sequence *)
(* of <<key, value>>, keys distinct ignoring case, values non-empty),      *)
(* sub (sequence of segments)].  A spelling set is a set of <<string,      *)
(* cost>>: cost counts the deviations from the canonical spelling, so that *)
(* a model can take all spellings with at most K deviations.               *)
(*                                                                         *)
(* Raw-permission table (DESIGN.md 3.4): a character may be written raw in *)
(* a position unless it would be read as a separator there.  MC_Spell      *)
(* checks the table against the transcribed parser, so a mistake in it is  *)
(* a design-time counter-example, never an alarm about the code.           *)
(***************************************************************************)
EXTENDS PurlGrammar

\* context of a tuple: which later separators will be written
Ctx(T) == [ver |-> T.ver # <<>>, q |-> T.quals # <<>>, sub |-> T.sub # <<>>]

\* may character c stand raw in position pos (given the context)?
RawOk(c, pos, cx) ==
  /\ c # PCT
  /\ CASE pos \in {"ns", "name"} -> c # SLASH /\ (c = AT => cx.ver) /\ (c = QM => cx.q) /\ (c = HASH => cx.sub)
       [] pos = "ver" -> c # AT /\ (c = QM => cx.q) /\ (c = HASH => cx.sub)
       [] pos = "qv" -> c \notin {AMP, QM} /\ (c = HASH => cx.sub)
       [] pos = "sub" -> c \notin {SLASH, HASH}
\* does Display escape c in that position? (C03's wording, through RByte)
CanonEscaped(c, pos) == LET p == IF pos = "qv" THEN "qual" ELSE pos IN c >= 128 \/ RByte(c, p) # <<c>>

\* the forms of one character: <<spelling, cost>>, canonical form has cost 0
CharForms(c, pos, cx) ==
  IF CanonEscaped(c, pos)
  THEN {<<EscUp(c), 0>>, <<EscLo(c), 1>>} \cup (IF RawOk(c, pos, cx) THEN {<<<<c>>, 1>>} ELSE {})
  ELSE {<<<<c>>, 0>>, <<EscUp(c), 1>>} \cup (IF EscLo(c) # EscUp(c) THEN {<<EscLo(c), 1>>} ELSE {})

Cat(A, B, K) == {<<a[1] \o b[1], a[2] + b[2]>> : a \in {x \in A : x[2] <= K}, b \in {x \in B : x[2] <= K}}
CatK(A, B, K) == {x \in Cat(A, B, K) : x[2] <= K}
Lit(s) == {<<s, 0>>}
RECURSIVE SpellStr(_, _, _, _)
SpellStr(s, pos, cx, K) == IF s = <<>> THEN Lit(<<>>)
                           ELSE CatK(CharForms(s[1], pos, cx), SpellStr(Tail(s), pos, cx, K), K)
\* letter case freedom (type, keys, checksum algorithm names and hex digits)
CaseForms(c) == IF IsAlpha(c) THEN {<<<<ALower(c)>>, 0>>, <<<<AUpper(c)>>, 1>>} ELSE {<<<<c>>, 0>>}
RECURSIVE SpellCase(_, _)
SpellCase(s, K) == IF s = <<>> THEN Lit(<<>>) ELSE CatK(CaseForms(s[1]), SpellCase(Tail(s), K), K)

\* segments joined by '/', with optional extra slashes (before each segment, cost 1 each)
RECURSIVE SpellSegs(_, _, _, _, _)
SpellSegs(segs, pos, cx, K, dots) ==
  IF segs = <<>> THEN Lit(<<>>)
  ELSE LET lead == {<<<<>>, 0>>, <<<<SLASH>>, 1>>}
                   \cup (IF dots THEN {<<<<DOT, SLASH>>, 1>>, <<<<DOT, DOT, SLASH>>, 1>>} ELSE {})
           sep == IF Len(segs) > 1 THEN Lit(<<SLASH>>) ELSE Lit(<<>>)
       IN CatK(CatK(CatK(lead, SpellStr(segs[1], pos, cx, K), K), sep, K), SpellSegs(Tail(segs), pos, cx, K, dots), K)

\* qualifiers: a given order of the pairs; key case; value spelling; optionally an interleaved
\* empty-valued qualifier with a fresh key
\* checksum entries may also be permuted (cost 1): the tuple carries the canonical text
SwapTwo(text) == LET items == Split(text, COMMA) IN
                 IF Len(items) = 2 THEN {items[2] \o <<COMMA>> \o items[1]} ELSE {}
CkValueSpell(text, K) == SpellCase(text, K)
                         \cup (IF K >= 1 THEN UNION {{<<x[1], x[2] + 1>> : x \in SpellCase(sw, K - 1)} : sw \in SwapTwo(text)} ELSE {})
SpellPair(pr, cx, K) == CatK(CatK(SpellCase(ALowerS(pr[1]), K), Lit(<<EQ>>), K),
                             IF ALowerS(pr[1]) = CHECKSUM THEN CkValueSpell(pr[2], K) ELSE SpellStr(pr[2], "qv", cx, K), K)
\* fresh keys "zz0" .. "zz9": every interleaved empty-valued qualifier has a key of its own - a key that occurs twice,
\* even with empty values only, is outside what the properties fix (DESIGN.md 4)
Fresh(n) == <<122, 122, 48 + n>>
RECURSIVE SpellPairs(_, _, _)
SpellPairs(ps, cx, K) ==
  IF ps = <<>> THEN Lit(<<>>)
  ELSE LET empty == {<<<<>>, 0>>, <<Fresh(Len(ps)) \o <<EQ, AMP>>, 1>>}
           sep == IF Len(ps) > 1 THEN Lit(<<AMP>>) ELSE {<<<<>>, 0>>, <<<<AMP>> \o Fresh(0) \o <<EQ>>, 1>>}
       IN CatK(CatK(CatK(empty, SpellPair(ps[1], cx, K), K), sep, K), SpellPairs(Tail(ps), cx, K), K)
\* orders of the pairs: sorted order has cost 0, any other order cost 1
SortedPairs(ps) == LET ks == SortStrs({ALowerS(ps[i][1]) : i \in 1..Len(ps)})
                   IN [i \in 1..Len(ks) |-> ps[CHOOSE j \in 1..Len(ps) : ALowerS(ps[j][1]) = ks[i]]]
RECURSIVE PermsOf(_)
PermsOf(S) == IF S = {} THEN {<<>>} ELSE UNION {{<<x>> \o p : p \in PermsOf(S \ {x})} : x \in S}
Orders(ps) == {<<p, IF p = SortedPairs(ps) THEN 0 ELSE 1>> : p \in PermsOf({ps[i] : i \in 1..Len(ps)})}
SpellQuals(ps, cx, K) == UNION {{<<x[1], x[2] + o[2]>> : x \in SpellPairs(o[1], cx, K - o[2])} : o \in {o \in Orders(ps) : o[2] <= K}}
(***************************************************************************)
(* All spellings of a tuple with at most K deviations.                     *)
(***************************************************************************)
Spellings(T, K) ==
  LET cx == Ctx(T)
      pre == {<<PKG, 0>>, <<PKG \o <<SLASH>>, 1>>, <<PKG \o <<SLASH, SLASH>>, 1>>}
      ty == CatK(SpellCase(T.type, K), Lit(<<SLASH>>), K)
      ns == IF T.ns = <<>> THEN Lit(<<>>)
            ELSE CatK(SpellSegs(T.ns, "ns", cx, K, FALSE), {<<<<SLASH>>, 0>>, <<<<SLASH, SLASH>>, 1>>}, K)
      nm == SpellStr(T.name, "name", cx, K)
      vr == IF T.ver = <<>> THEN Lit(<<>>) ELSE CatK(Lit(<<AT>>), SpellStr(T.ver, "ver", cx, K), K)
      qs == IF T.quals = <<>> THEN Lit(<<>>) ELSE CatK(Lit(<<QM>>), SpellQuals(T.quals, cx, K), K)
      sb == IF T.sub = <<>> THEN Lit(<<>>)
            ELSE CatK(CatK(Lit(<<HASH>>), SpellSegs(T.sub, "sub", cx, K, TRUE), K), {<<<<>>, 0>>, <<<<SLASH>>, 1>>}, K)
  IN CatK(CatK(CatK(CatK(CatK(CatK(pre, ty, K), ns, K), nm, K), vr, K), qs, K), sb, K)

\* what parsing any of them must yield (before the type's own name rule)
CanonOf(T) == [type |-> ALowerS(T.type), ns |-> Join(T.ns, SLASH), name |-> T.name, ver |-> T.ver,
               quals |-> LET sp == SortedPairs(T.quals) IN [i \in 1..Len(sp) |-> <<ALowerS(sp[i][1]), sp[i][2]>>],
               sub |-> Join(T.sub, SLASH)]
TypedCanonOf(T, tab) == LET v == CanonOf(T) IN
   IF v.type = PYPI THEN [v EXCEPT !.name = PypiName(v.name, tab)]
   ELSE IF v.type = NUGET THEN [v EXCEPT !.name = NugetName(v.name, tab)] ELSE v
\* the tuple is within C02's quantifier
LegalTuple(T) ==
  /\ T.type # <<>> /\ IsAlpha(T.type[1]) /\ ValidType(T.type)
  /\ T.name # <<>>
  /\ \A i \in 1..Len(T.ns) : T.ns[i] # <<>> /\ ~Contains(T.ns[i], SLASH)
  /\ \A i \in 1..Len(T.sub) : T.sub[i] # <<>> /\ ~Contains(T.sub[i], SLASH) /\ ~DotSeg(T.sub[i])
  /\ \A i \in 1..Len(T.quals) : ValidKey(T.quals[i][1]) /\ IsAlpha(T.quals[i][1][1]) /\ T.quals[i][2] # <<>>
  /\ \A i, j \in 1..Len(T.quals) : i # j => ALowerS(T.quals[i][1]) # ALowerS(T.quals[j][1])

(***************************************************************************)
(* Faults (C05).  A fault is injected while the string is put together, so *)
(* the injector knows the class it must produce without parsing anything.  *)
(* Parts of the canonical spelling of T: pre type "/" ns name ver qs sb.   *)
(***************************************************************************)
CanonParts(T) ==
  LET v == CanonOf(T) IN
  [pre |-> PKG, type |-> v.type,
   ns |-> IF v.ns = <<>> THEN <<>> ELSE PctEnc(v.ns, PURL_PATH) \o <<SLASH>>,
   name |-> PctEnc(v.name, PURL_PATH_SEGMENT),
   ver |-> IF v.ver = <<>> THEN <<>> ELSE <<AT>> \o PctEnc(v.ver, PURL_PATH),
   qs |-> FmtQuals(v.quals, TRUE, PURL_QUERY),
   sb |-> IF v.sub = <<>> THEN <<>> ELSE <<HASH>> \o PctEnc(v.sub, PURL_FRAGMENT)]
Glue(p) == p.pre \o p.type \o <<SLASH>> \o p.ns \o p.name \o p.ver \o p.qs \o p.sb
InsStr(s, i, x) == Take(s, i) \o x \o Drop(s, i)
\* invalid-UTF-8 escape families, both hex cases
BadUtf8 == {<<37,56,48>>, <<37,67,51>>, <<37,69,50,37,56,50>>, <<37,67,48,37,56,48>>, <<37,69,68,37,65,48,37,56,48>>,
            <<37,70,52,37,57,48,37,56,48,37,56,48>>,
            <<37,99,51>>, <<37,101,50,37,56,50>>, <<37,99,48,37,56,48>>, <<37,101,100,37,97,48,37,56,48>>, <<37,102,52,37,57,48,37,56,48,37,56,48>>}
BadTypeChars == {<<33>>, <<32>>, <<95>>, <<37,52,49>>, <<233>>, <<64>>, <<126>>, <<58>>, <<44>>, <<42>>}      \* ! space _ %41 e-acute @ ~ : , *
BadKeyChars == {<<33>>, <<43>>, <<126>>, <<32>>, <<58>>, <<47>>, <<233>>, <<37,52,49>>, <<64>>, <<44>>}          \* ! + ~ space : / e-acute %41 @ ,
\* Faults(T) : set of [s |-> string, err |-> generic error class, what |-> description]
F(s, e, w) == [s |-> s, err |-> e, what |-> w]
Faults(T) ==
  LET p == CanonParts(T)
      g == Glue(p)
      hasNs == p.ns # <<>>
      hasQ == p.qs # <<>>
      hasSub == p.sb # <<>>
  IN
  \* scheme
  {F(Drop(g, 4), "UnsupportedUrlScheme", "scheme missing"), F(<<104,116,116,112,58>> \o Drop(g, 4), "UnsupportedUrlScheme", "other scheme"),
   F(<<112,107,103>> \o Drop(g, 4), "UnsupportedUrlScheme", "colon missing"), F(<<120>> \o g, "UnsupportedUrlScheme", "character before pkg:")}
  \* no type: the path is empty
  \cup {F(p.pre \o p.qs \o p.sb, "MissingType", "empty path")}
  \* invalid type: a character outside [A-Za-z0-9.+-] or an escaped one, at every position
  \cup {F(Glue([p EXCEPT !.type = InsStr(p.type, i, b)]), "InvalidPackageType", "invalid character in type")
          : i \in 0..Len(p.type), b \in BadTypeChars}
  \* a letter of the type itself written as an escape (upper / lower hex): the type must not be percent-decoded
  \cup {F(Glue([p EXCEPT !.type = EscUp(p.type[1]) \o Tail(p.type)]), "InvalidPackageType", "first letter of the type escaped"),
        F(Glue([p EXCEPT !.type = Take(p.type, Len(p.type) - 1) \o EscLo(p.type[Len(p.type)])]), "InvalidPackageType", "last letter of the type escaped")}
  \* no name
  \cup {F(Glue([p EXCEPT !.name = <<>>]), "MissingName", "empty name"),
        F(p.pre \o p.type \o p.qs \o p.sb, "MissingName", "no slash after type")}
  \* invalid escapes in name, version, a namespace segment, a subpath segment, a qualifier value
  \cup {F(Glue([p EXCEPT !.name = InsStr(p.name, i, b)]), "InvalidEscape", "invalid UTF-8 in name") : i \in {0, Len(p.name)}, b \in BadUtf8}
  \cup (IF p.ver = <<>> THEN {} ELSE
        {F(Glue([p EXCEPT !.ver = InsStr(p.ver, i, b)]), "InvalidEscape", "invalid UTF-8 in version") : i \in {1, Len(p.ver)}, b \in BadUtf8})
  \cup (IF ~hasNs THEN {} ELSE
        {F(Glue([p EXCEPT !.ns = InsStr(p.ns, i, b)]), "InvalidEscape", "invalid UTF-8 or hidden slash in namespace")
           : i \in {0, Len(p.ns) - 1}, b \in BadUtf8 \cup {<<37,50,70>>, <<37,50,102>>}})
  \cup (IF ~hasSub THEN {} ELSE
        {F(Glue([p EXCEPT !.sb = InsStr(p.sb, i, b)]), "InvalidEscape", "invalid UTF-8 or hidden slash in subpath")
           : i \in {1, Len(p.sb)}, b \in BadUtf8 \cup {<<37,50,70>>, <<37,50,102>>}}
        \cup {F(Glue([p EXCEPT !.sb = p.sb \o <<SLASH>> \o d]), "InvalidEscape", "escaped dot segment in subpath")
                : d \in {<<37,50,101>>, <<37,50,69,37,50,101>>, <<46,37,50,69>>, <<37,50,101,46>>}})
  \cup (IF ~hasQ THEN {} ELSE
        {F(Glue([p EXCEPT !.qs = InsStr(p.qs, Len(p.qs), b)]), "InvalidEscape", "invalid UTF-8 in qualifier value") : b \in BadUtf8}
        \* qualifier faults
        \cup {F(Glue([p EXCEPT !.qs = p.qs \o <<AMP, 120>>]), "InvalidQualifier", "item without ="),
              F(Glue([p EXCEPT !.qs = <<QM, 120, AMP>> \o Tail(p.qs)]), "InvalidQualifier", "item without = (first)"),
              F(Glue([p EXCEPT !.qs = p.qs \o <<AMP, 33, 61, 118>>]), "InvalidQualifier", "invalid key"),
              F(Glue([p EXCEPT !.qs = p.qs \o <<AMP, 61, 118>>]), "InvalidQualifier", "empty key"),
              F(Glue([p EXCEPT !.qs = p.qs \o <<AMP, 37,52,49, 61, 118>>]), "InvalidQualifier", "escaped key"),
              F(Glue([p EXCEPT !.qs = p.qs \o <<AMP>> \o AUpperS(CanonOf(T).quals[1][1]) \o <<61, 119>>]), "InvalidQualifier", "key repeated in another case")})
  \* an invalid character inside an otherwise valid key, at the front, in the middle, at the end
  \cup {F(Glue([p EXCEPT !.qs = (IF hasQ THEN p.qs \o <<AMP>> ELSE <<QM>>) \o InsStr(<<120, 121>>, i, b) \o <<61, 118>>]),
           "InvalidQualifier", "invalid character in key") : i \in 0..2, b \in BadKeyChars}
  \* qualifier faults when there are no qualifiers yet
  \cup (IF hasQ THEN {} ELSE
        {F(Glue([p EXCEPT !.qs = <<QM, 120>>]), "InvalidQualifier", "item without ="),
         F(Glue([p EXCEPT !.qs = <<QM, 33, 61, 118>>]), "InvalidQualifier", "invalid key"),
         F(Glue([p EXCEPT !.qs = <<QM, 107, 61, 118, AMP, 75, 61, 119>>]), "InvalidQualifier", "key repeated in another case")}
        \cup {F(Glue([p EXCEPT !.qs = <<QM, 107, 61>> \o b]), "InvalidEscape", "invalid UTF-8 in qualifier value")
                : b \in {<<37,56,48>>, <<37,101,100,37,97,48,37,56,48>>}}
        \* malformed checksums
        \cup {F(Glue([p EXCEPT !.qs = <<QM>> \o CHECKSUM \o <<EQ>> \o c]), "InvalidQualifier", "malformed checksum")
                : c \in {<<97>>, <<97,58,48>>, <<97,58,120,120>>, <<97,58,48,48,44,65,58,49,49>>, <<97,58,48,48,44>>, <<97,58,48,48,44,98>>,
                         \* algorithm repeated in another case, non-ASCII: "AE':00,ae':11" (E' = U+00C9) and "DZ:00,dz:11" (U+01C5 / U+01C6)
                         <<65,201,58,48,48,44,97,233,58,49,49>>, <<453,58,48,48,44,454,58,49,49>>,
                         \* the same algorithm twice in the same (canonical) spelling, adjacent and not: "a:00,a:ff"  "a:00,b:11,a:22"
                         <<97,58,48,48,44,97,58,102,102>>, <<97,58,48,48,44,98,58,49,49,44,97,58,50,50>>,
                         \* two hashes of odd length (the total is even): "a:0,b:1"
                         <<97,58,48,44,98,58,49>>,
                         \* non-ASCII capital before an ASCII capital: "E'B:00,e'b:11"
                         <<201,66,58,48,48,44,233,98,58,49,49>>}})
\* two faults at once: rejection demanded, class free
DoubleFaults(T) ==
  LET p == CanonParts(T) IN
  {Glue([p EXCEPT !.type = p.type \o <<33>>, !.name = p.name \o <<37,56,48>>]),
   Glue([p EXCEPT !.name = <<>>, !.qs = <<QM, 120>>]),
   Glue([p EXCEPT !.name = p.name \o <<37,56,48>>, !.qs = <<QM, 33, 61, 118>>]),
   <<120>> \o Glue([p EXCEPT !.type = p.type \o <<33>>]),
   p.pre \o <<QM, 120>>,
   Glue([p EXCEPT !.qs = <<QM, 107, 61, 37,56,48, AMP, 120>>])}
=============================================================================
