----------------------------- MODULE PurlTypes -----------------------------
(***************************************************************************)
(* The built-in PackageType enum (package_type.rs): names, case-           *)
(* insensitive lookup, per-type rules applied by finish(), combined names. *)
(***************************************************************************)
EXTENDS PurlValue

CARGO == <<99, 97, 114, 103, 111>>
GEM == <<103, 101, 109>>
GOLANG == <<103, 111, 108, 97, 110, 103>>
MAVEN == <<109, 97, 118, 101, 110>>
NPM == <<110, 112, 109>>
NUGET == <<110, 117, 103, 101, 116>>
PYPI == <<112, 121, 112, 105>>
TypeNames == {CARGO, GEM, GOLANG, MAVEN, NPM, NUGET, PYPI}

\* PackageType::from_str: the property (C15) - a string denotes a type iff its
\* ASCII-lower-cased form is the type's name.
Lookup(s) == IF ALowerS(s) \in TypeNames THEN [ok |-> TRUE, t |-> ALowerS(s)] ELSE [ok |-> FALSE]

\* pypi: maximal runs of '-', '_', '.' become one '-', every other character is lower-cased
DashChar(c) == c \in {DASH, USCORE, DOT}
RECURSIVE PypiFrom(_, _, _)
PypiFrom(s, inDash, tab) ==
   IF s = <<>> THEN <<>>
   ELSE IF DashChar(s[1]) THEN (IF inDash THEN <<>> ELSE <<DASH>>) \o PypiFrom(Tail(s), TRUE, tab)
   ELSE LowerC(s[1], tab) \o PypiFrom(Tail(s), FALSE, tab)
PypiName(s, tab) == PypiFrom(s, FALSE, tab)
NugetName(s, tab) == LowerS(s, tab)

\* maven needs a namespace with at least one non-empty segment (C09: the printed
\* form must be accepted again; defect D4 on the pinned tree tested ns = "" only)
HasNsSegment(ns) == \E i \in 1..Len(ns) : ns[i] # SLASH

\* PackageType::finish
TypedFinish(t, parts, tab) ==
   IF t = MAVEN /\ ~HasNsSegment(parts.ns) THEN Err("MissingNamespace")
   ELSE [ok |-> TRUE,
         parts |-> IF t = NUGET THEN [parts EXCEPT !.name = NugetName(parts.name, tab)]
                   ELSE IF t = PYPI THEN [parts EXCEPT !.name = PypiName(parts.name, tab)]
                   ELSE parts]

(***************************************************************************)
(* The pinned lower-casing helpers (lib.rs:389-445) scan with              *)
(* char::is_uppercase and only then choose a path; `isUpper` is the set of *)
(* non-ASCII characters for which is_uppercase() holds.  Kept to exhibit   *)
(* defect D3 on the model (titlecase letters are not is_uppercase).        *)
(***************************************************************************)
RECURSIVE ScanState(_, _, _)
ScanState(s, st, isUpper) ==
   IF s = <<>> THEN st
   ELSE IF IsUpper(s[1]) THEN ScanState(Tail(s), "MixedAscii", isUpper)
   ELSE IF s[1] \in isUpper THEN "MixedUnicode"
   ELSE ScanState(Tail(s), st, isUpper)
LowerInPlacePinned(s, tab, isUpper) ==
   LET st == ScanState(s, "Lower", isUpper) IN
   IF st = "Lower" THEN s ELSE IF st = "MixedAscii" THEN ALowerS(s) ELSE LowerS(s, tab)

(***************************************************************************)
(* Combined names (lib.rs:326-374).                                        *)
(***************************************************************************)
SplitCombined(t, s) ==
   IF t \in {GOLANG, NPM} THEN
      LET i == LastIdx(s, SLASH) IN
      IF i = 0 THEN [ns |-> <<>>, name |-> s] ELSE [ns |-> Take(s, i - 1), name |-> Drop(s, i)]
   ELSE IF t = MAVEN THEN
      LET i == FirstIdx(s, COLON) IN
      IF i = 0 THEN [ns |-> <<>>, name |-> s] ELSE [ns |-> Take(s, i - 1), name |-> Drop(s, i)]
   ELSE [ns |-> <<>>, name |-> s]
JoinCombined(v) ==
   IF v.type \in {GOLANG, NPM} THEN (IF v.ns = <<>> THEN v.name ELSE v.ns \o <<SLASH>> \o v.name)
   ELSE IF v.type = MAVEN THEN (IF v.ns = <<>> THEN v.name ELSE v.ns \o <<COLON>> \o v.name)
   ELSE v.name
\* side condition of C18 under which the constructor inverts combined_name()
CombinedInvertible(v) ==
   IF v.type \in {GOLANG, NPM} THEN ~Contains(v.name, SLASH)
   ELSE IF v.type = MAVEN THEN ~Contains(v.ns, COLON)
   ELSE v.ns = <<>>
=============================================================================
