---------------------------- MODULE Trace_Shapes ----------------------------
(***************************************************************************)
(* impl -> spec for C14: the calls the library made into a user-supplied   *)
(* shape, recorded by the shape itself (begin / conv / finish / end), are  *)
(* consumed by the step machine of ShapeMachine.tla.  A missing, repeated, *)
(* reordered or wrongly-argumented call leaves no enabled action: the      *)
(* event is reported and the trace re-synchronises at the next "begin".    *)
(* "value" events (PURLs handed out that TLC had not seen) are checked     *)
(* with C04's ValidParts.                                                  *)
(***************************************************************************)
EXTENDS ShapeMachine, Json, IOUtils, TLCExt

Rec == ndJsonDeserialize(IOEnv.TRACE)
VARIABLE l
tvars == <<mvars, l>>

ShapeOfJ(j) == [kind |-> "test", conv |-> j.conv, fin |-> j.fin, edits |-> j.edits]
\* the recorded outcome, as the machine's outcome: the value without the printed form
OutOf(o) == IF "ok" \in DOMAIN o /\ o.ok THEN [ok |-> TRUE, v |-> o.v] ELSE o
Can(e) ==
  CASE e.ev = "begin" -> pc \in {"idle", "end"}
    [] e.ev = "conv" -> CanConv(e.arg)
    [] e.ev = "finish" -> /\ CanFinish(e.before) /\ e.ok = StepFinish(shape, st, e.before, LowerTab).ok
                          /\ (e.ok => e.after = ApplyEdits(e.before, shape.edits))
                          /\ (~e.ok => e.after = e.before)
    [] e.ev = "end" -> /\ "panic" \notin DOMAIN e.out /\ CanEnd(OutOf(e.out))
                       /\ e.out = Outcome(OutOf(e.out))                      \* the printed form is the value's
    [] e.ev = "value" -> pc \in {"idle", "end"} /\ ValidParts(e.v)
    [] OTHER -> FALSE
Do(e) ==
  CASE e.ev = "begin" -> IF e.entry = "parse" THEN MBeginParse(e.s, ShapeOfJ(e.shape))
                         ELSE MBeginBuild(e.st, e.parts, ShapeOfJ(e.shape))
    [] e.ev = "conv" -> MConv(e.arg)
    [] e.ev = "finish" -> MFinish(e.before, e.after, e.ok)
    [] e.ev = "end" -> MEnd(OutOf(e.out))
    [] OTHER -> UNCHANGED mvars
RECURSIVE NextBegin(_)
NextBegin(i) == IF i > Len(Rec) THEN i ELSE IF Rec[i].ev = "begin" THEN i ELSE NextBegin(i + 1)
Resync == /\ pc' = "idle" /\ UNCHANGED <<shape, entry, info, conv, hook, st, parts, out, nConv, nFin>>
          /\ l' = NextBegin(l + 1)

TraceInit == MInit /\ l = 1 /\ TLCSet(1, 0)
TraceNext == /\ l <= Len(Rec)
             /\ TLCSet(1, l)                       \* highest event index reached (single worker)
             /\ IF Can(Rec[l]) THEN Do(Rec[l]) /\ l' = l + 1
                ELSE PrintT(<<"TRACE-REJECTED", l, {IF Rec[l].ev = "value" THEN "C04" ELSE "C14"}>>) /\ Resync
TraceSpec == TraceInit /\ [][TraceNext]_tvars
\* the protocol invariants hold along the recorded behaviour as well
C14_Counts_T == C14_Counts
TraceAccepted == IF TLCGet(1) >= Len(Rec) THEN PrintT(<<"TRACE-CONSUMED", Len(Rec)>>)
                 ELSE PrintT(<<"TRACE-STUCK", TLCGet(1) + 1>>)
=============================================================================
