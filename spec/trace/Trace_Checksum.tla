--------------------------- MODULE Trace_Checksum ---------------------------
(***************************************************************************)
(* impl -> spec for C12: random call sequences on live Checksum values     *)
(* (each with its own randomly seeded hash map, several processes).  The   *)
(* state carried is the map algs; an event is accepted iff CkApply gives   *)
(* the recorded result and entries.  The recorded iteration order `order`  *)
(* is unconstrained except that it enumerates exactly the map's keys - any *)
(* order is a behaviour of the specification, while the text form is not   *)
(* allowed to depend on it.                                                *)
(***************************************************************************)
EXTENDS Checksum, Json, IOUtils, TLCExt

Rec == ndJsonDeserialize(IOEnv.TRACE)
VARIABLES algs, l
Tab(e) == IF e.lc # <<>> THEN [c \in {e.lc[i][1] : i \in 1..Len(e.lc)} |-> e.lc[CHOOSE i \in 1..Len(e.lc) : e.lc[i][1] = c][2]] ELSE LowerTab
RECURSIVE FnOfPairs(_)
FnOfPairs(a) == IF a = <<>> THEN EmptyFn ELSE FnSet(FnOfPairs(Tail(a)), a[1][1], a[1][2])
StepOk(e) == LET r == CkApply(algs, e.op, Tab(e)) IN
             /\ r.res = e.res /\ CkPairs(r.algs) = e.post
             /\ {e.order[i] : i \in 1..Len(e.order)} = DOMAIN algs /\ Len(e.order) = Cardinality(DOMAIN algs)
TraceInit == algs = EmptyFn /\ l = 1
TraceNext == /\ l <= Len(Rec)
             /\ LET e == Rec[l] IN
                IF e.ev = "reset" THEN algs' = EmptyFn
                ELSE /\ (IF StepOk(e) THEN TRUE
                         ELSE PrintT(<<"TRACE-REJECTED", l, {IF "panic" \in DOMAIN e.res THEN "C06" ELSE "C12"}>>))
                     /\ algs' = FnOfPairs(e.post)
             /\ l' = l + 1
TraceSpec == TraceInit /\ [][TraceNext]_<<algs, l>>
TraceAccepted ==
  LET d == TLCGet("stats").diameter IN
  IF d - 1 = Len(Rec) THEN PrintT(<<"TRACE-CONSUMED", Len(Rec)>>) ELSE PrintT(<<"TRACE-STUCK", d>>)
=============================================================================
