-------------------------- MODULE Trace_Stateless --------------------------
(***************************************************************************)
(* impl -> spec validation of events whose meaning does not depend on the  *)
(* events before them: every event is one public call (or one value handed *)
(* out by the library) and is accepted iff the specification allows it.    *)
(*                                                                         *)
(*   value  : a PURL value the library handed out (projection v, string    *)
(*            str) - C04 Valid, C07 structure, C03 Render                  *)
(*   parse  : from_str(s) = out for shape sh - C02/C05 through Judge,      *)
(*            universal properties on the value                           *)
(* The table `lc` (when present) carries char::to_lowercase of the         *)
(* non-ASCII characters occurring in the event.                            *)
(***************************************************************************)
EXTENDS PurlGrammar, Json, IOUtils, TLCExt

Rec == ndJsonDeserialize(IOEnv.TRACE)
VARIABLE l

NoBadSeg(x, dots) == x = <<>> \/ \A g \in Range(Split(x, SLASH)) : g # <<>> /\ (dots => ~DotSeg(g))
\* lower-case table of an event: [[cp, [cps]], ...] -> function
LcTab(e) == IF "lc" \in DOMAIN e /\ e.lc # <<>>
            THEN [c \in {e.lc[i][1] : i \in 1..Len(e.lc)} |-> e.lc[CHOOSE i \in 1..Len(e.lc) : e.lc[i][1] = c][2]]
            ELSE LowerTab
ShapeOf(e) == IF e.sh = "typed" THEN Typed ELSE Generic

\* per-property conjuncts of an event; FailedProps lists the tags whose conjunct is false
ValueProps(e) ==
  LET v == e.v IN
  [C04 |-> IF e.generic THEN Valid(v) ELSE ValidParts(v),
   C03 |-> (~e.generic \/ (e.str = Render(v) /\ PrintableAscii(e.str))),
   C07 |-> (e.origin # "parse" \/ (NoBadSeg(v.ns, FALSE) /\ NoBadSeg(v.sub, TRUE)))]
ParseProps(e) ==
  LET jd == Judge(e.s, ShapeOf(e), LcTab(e))
      out == e.out
      okv == "ok" \in DOMAIN out /\ out.ok
  IN [C06 |-> "panic" \notin DOMAIN out,
      C02 |-> (jd.j = "acc" => (okv /\ out.v = jd.v /\ out.str = jd.str)),
      C05 |-> ((jd.j = "err" => ("ok" \in DOMAIN out /\ ~out.ok /\ out.err = jd.err))
               /\ (jd.j = "rej" => ("ok" \in DOMAIN out /\ ~out.ok))),
      C04 |-> (okv => Valid(out.v)),
      C03 |-> (okv => (out.str = Render(out.v) /\ PrintableAscii(out.str))),
      C07 |-> (okv => (NoBadSeg(out.v.ns, FALSE) /\ NoBadSeg(out.v.sub, TRUE)))]
Props(e) == CASE e.ev = "value" -> ValueProps(e)
              [] e.ev = "parse" -> ParseProps(e)
              [] OTHER -> [TOOL |-> FALSE]
FailedProps(e) == LET p == Props(e) IN {k \in DOMAIN p : ~p[k]}
EventOk(e) == FailedProps(e) = {}

\* Stateless events: a rejected event is reported and the trace goes on, so that every
\* event of the file is examined (a rejection 4 events in must not hide the rest).
TraceInit == l = 1
TraceNext == /\ l <= Len(Rec)
             /\ (IF EventOk(Rec[l]) THEN TRUE ELSE PrintT(<<"TRACE-REJECTED", l, FailedProps(Rec[l])>>))
             /\ l' = l + 1
TraceSpec == TraceInit /\ [][TraceNext]_l
TraceAccepted ==
  LET d == TLCGet("stats").diameter IN
  IF d - 1 = Len(Rec) THEN PrintT(<<"TRACE-CONSUMED", Len(Rec)>>)
  ELSE PrintT(<<"TRACE-STUCK", d>>)
=============================================================================
