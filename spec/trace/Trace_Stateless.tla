-------------------------- MODULE Trace_Stateless --------------------------
(***************************************************************************)
(* impl -> spec validation of events whose meaning does not depend on the  *)
(* events before them: every event is one public call (or one value handed *)
(* out by the library) and is accepted iff the specification allows it.    *)
(*                                                                         *)
(*   value  : a PURL value the library handed out (projection v, string    *)
(*            str) - C04 Valid, C07 structure, C03 Render                  *)
(*   parse  : from_str(s) = out for shape sh - C02/C05 through Judge,      *)
(*            universal properties on the value                           *)
(*   bseq   : a whole builder call sequence new(..).op1...opn.build() with *)
(*            arbitrary arguments, its outcome and the parse of its printed*)
(*            form - C09 through Apply/Track/Expected                      *)
(*   hparse / hbuild : calls recorded by the guarded hooks inside the      *)
(*            library while the repository's own test suite runs           *)
(*   opaque : an input beyond TLC's evaluation cap (64 KiB - 1 MiB): only  *)
(*            the kind of outcome is constrained (C06)                     *)
(* The table `lc` (when present) carries char::to_lowercase of the         *)
(* non-ASCII characters occurring in the event.                            *)
(***************************************************************************)
EXTENDS PurlGrammar, PurlBuilder, Json, IOUtils, TLCExt

Rec == ndJsonDeserialize(IOEnv.TRACE)
VARIABLE l

NoBadSeg(x, dots) == x = <<>> \/ \A g \in Range(Split(x, SLASH)) : g # <<>> /\ (dots => ~DotSeg(g))
\* lower-case table of an event: [[cp, [cps]], ...] -> function
LcTab(e) == IF "lc" \in DOMAIN e /\ e.lc # <<>>
            THEN [c \in {e.lc[i][1] : i \in 1..Len(e.lc)} |-> e.lc[CHOOSE i \in 1..Len(e.lc) : e.lc[i][1] = c][2]]
            ELSE LowerTab
ShapeOf(e) == IF e.sh = "typed" THEN Typed ELSE Generic

\* per-property conjuncts of an event; FailedProps lists the tags whose conjunct is false
ValueProps(e) ==
  LET v == e.v IN
  [C06 |-> (e.generic => "display_panic" \notin DOMAIN e),           \* Display of a built-in type parameter never panics
   C04 |-> IF e.generic THEN Valid(v) ELSE ValidParts(v),
   C03 |-> (~e.generic \/ (e.str = Render(v) /\ PrintableAscii(e.str) /\ QSorted(v.quals))),
   C07 |-> (e.origin # "parse" \/ (NoBadSeg(v.ns, FALSE) /\ NoBadSeg(v.sub, TRUE)))]
ParseProps(e) ==
  LET jd == Judge(e.s, ShapeOf(e), LcTab(e))
      out == e.out
      okv == "ok" \in DOMAIN out /\ out.ok
  IN [C06 |-> "panic" \notin DOMAIN out /\ "display_panic" \notin DOMAIN out,
      C02 |-> (jd.j = "acc" => (okv /\ out.v = jd.v /\ out.str = jd.str)),
      C05 |-> ((jd.j = "err" => ("ok" \in DOMAIN out /\ ~out.ok /\ out.err = jd.err))
               /\ (jd.j = "rej" => ("ok" \in DOMAIN out /\ ~out.ok))),
      C04 |-> (okv => Valid(out.v)),
      C03 |-> (okv => (out.str = Render(out.v) /\ PrintableAscii(out.str) /\ QSorted(out.v.quals))),
      C07 |-> /\ (okv => (NoBadSeg(out.v.ns, FALSE) /\ NoBadSeg(out.v.sub, TRUE)))
              /\ ((okv /\ jd.j = "acc") => (out.v.ns = jd.v.ns /\ out.v.sub = jd.v.sub)),
      \* the typed PURL: the type's own rules (name rule, maven namespace, unknown type) and the type lookup
      C08 |-> (e.sh = "typed" =>
                 /\ (jd.j = "acc" => (okv /\ out.v = jd.v))
                 /\ ((jd.j = "err" /\ jd.err \in {"UnsupportedType", "MissingNamespace"})
                       => ("ok" \in DOMAIN out /\ ~out.ok /\ out.err = jd.err))),
      C15 |-> ((e.sh = "typed" /\ jd.j = "err" /\ jd.err \in {"UnsupportedType", "Parse:InvalidPackageType"}) => ~okv)]
\* fold the recorded ops over the builder and the history
RECURSIVE RunOps(_, _, _, _)
RunOps(b, last, ops, tab) ==
   IF ops = <<>> THEN [ok |-> TRUE, b |-> b, last |-> last]
   ELSE LET r == Apply(b, ops[1], tab) IN
        IF ~r.ok THEN r ELSE RunOps(r.b, Track(last, ops[1], tab), Tail(ops), tab)
BseqProps(e) ==
  LET tab == LcTab(e)
      sh == ShapeOf(e)
      b0 == [st |-> e.ops[1][2], parts |-> [NoParts EXCEPT !.name = e.ops[1][3]]]
      run == RunOps(b0, LastOfNew(e.ops[1][2], e.ops[1][3]), Tail(e.ops), tab)
      out == e.out
      okv == "ok" \in DOMAIN out /\ out.ok
      exp == IF run.ok THEN BuildF(sh, run.b.st, run.b.parts, tab) ELSE run
  IN [C06 |-> "panic" \notin DOMAIN out /\ "display_panic" \notin DOMAIN out,
      C09 |-> /\ (run.ok => Faithful(run.b, run.last))
              /\ (okv <=> (run.ok /\ ExpectedOk(sh, run.last, tab)))
              /\ (okv => out.v = ExpectedValue(sh, run.last, tab) /\ out.v = exp.v)
              /\ (okv => ("ok" \in DOMAIN e.back /\ e.back.ok /\ e.back.v = DropInsig(out.v))),
      C04 |-> (okv => Valid(out.v)),
      C03 |-> (okv => out.str = Render(out.v) /\ PrintableAscii(out.str))]
OpaqueProps(e) == [C06 |-> e.kind \in {"ok", "err"}]
\* PackageType::from_str(s) = res
LookupProps(e) ==
  LET r == Lookup(e.s) IN
  [C06 |-> "panic" \notin DOMAIN e.res,
   C15 |-> /\ "some" \in DOMAIN e.res
           /\ (e.res.some <=> r.ok)
           /\ (e.res.some => e.res.v = r.t /\ e.res.views_agree)]
\* builder_with_combined_name(t, s), build(), combined_name(), and back
CombProps(e) ==
  IF "panic" \in DOMAIN e THEN [C06 |-> FALSE] ELSE
  LET tab == LcTab(e)
      sp == SplitCombined(e.t, e.s)
      exp == BuildF(Typed, e.t, [NoParts EXCEPT !.ns = sp.ns, !.name = sp.name], tab)
      okv == "ok" \in DOMAIN e.out /\ e.out.ok
  IN [C06 |-> "panic" \notin DOMAIN e.out,
      C18 |-> /\ e.split = sp
              /\ (okv <=> exp.ok) /\ (okv => e.out.v = exp.v)
              /\ (okv => e.joined.some /\ e.joined.x = JoinCombined(exp.v))
              /\ ((okv /\ CombinedInvertible(exp.v)) => (e.inverse.ns = exp.v.ns /\ e.inverse.name = exp.v.name)),
      C04 |-> (okv => Valid(e.out.v))]
\* events written by the guarded hooks inside the library (--cfg purl_verif) while the repository's own tests run:
\* hparse = one call of from_str, hbuild = one call of build().  The hook cannot name the error class of a generic
\* error type, so only acceptance / refusal is recorded for errors.  sh = "other" is a user-written shape of a test.
HParseProps(e) ==
  LET out == e.out IN
  IF e.sh = "other" THEN [C04 |-> (out.ok => ValidParts(out.v))] ELSE
  LET jd == Judge(e.s, ShapeOf(e), LcTab(e)) IN
  [C06 |-> "display_panic" \notin DOMAIN out,
   C02 |-> (jd.j = "acc" => (out.ok /\ out.v = jd.v /\ out.str = jd.str)),
   C05 |-> (jd.j \in {"err", "rej"} => ~out.ok),
   C04 |-> (out.ok => Valid(out.v)),
   C03 |-> (out.ok => (out.str = Render(out.v) /\ PrintableAscii(out.str) /\ QSorted(out.v.quals))),
   C07 |-> (out.ok => (NoBadSeg(out.v.ns, FALSE) /\ NoBadSeg(out.v.sub, TRUE))),
   C01 |-> (out.ok => LET r == ParseF(out.str, ShapeOf(e), LcTab(e)) IN r.ok /\ r.v = out.v)]
HBuildProps(e) ==
  LET out == e.out IN
  IF e.sh = "other" THEN [C04 |-> (out.ok => ValidParts(out.v))] ELSE
  LET exp == BuildF(ShapeOf(e), e.st, e.parts, LcTab(e)) IN
  [C06 |-> "display_panic" \notin DOMAIN out,
   C09 |-> (out.ok <=> exp.ok) /\ (out.ok => out.v = exp.v),
   C04 |-> (out.ok => Valid(out.v)),
   C03 |-> (out.ok => (out.str = Render(out.v) /\ PrintableAscii(out.str))),
   C10 |-> (out.ok => Rebuild(ShapeOf(e), out.v, LcTab(e)) = [ok |-> TRUE, v |-> out.v])]
\* a qualifier collection content the specification did not predict: is it at least a well-formed collection?
QvecProps(e) ==
  LET ok == /\ QSorted(e.post)
            /\ \A i \in 1..Len(e.post) : ValidKey(e.post[i][1]) /\ e.post[i][1] = ALowerS(e.post[i][1])
  IN [C04 |-> ok, C11 |-> ok]
\* combined_name() of a parsed typed PURL and the constructor applied to it (inverse law of C18)
CombInvProps(e) ==
  IF "panic" \in DOMAIN e THEN [C06 |-> FALSE] ELSE
  [C18 |-> /\ e.joined = JoinCombined(e.v)
           /\ (CombinedInvertible(e.v) => (e.inverse.ns = e.v.ns /\ e.inverse.name = e.v.name))
           /\ e.inverse = SplitCombined(e.v.type, e.joined)]
\* two values handed out by the parser, their strings and the comparison results
PairProps(e) ==
  [C19 |-> /\ (e.eq <=> (e.a = e.b)) /\ (e.eq <=> (e.sa = e.sb))
           /\ (e.eq => e.hash_eq)
           /\ (e.cmp_ab = 0 <=> e.eq)
           /\ ((e.cmp_ab = 1 /\ e.cmp_ba = 2) \/ (e.cmp_ab = 2 /\ e.cmp_ba = 1) \/ (e.cmp_ab = 0 /\ e.cmp_ba = 0)),
   C03 |-> e.sa = Render(e.a) /\ e.sb = Render(e.b),
   C04 |-> Valid(e.a) /\ Valid(e.b)]
Props(e) == CASE e.ev = "value" -> ValueProps(e)
              [] e.ev = "parse" -> ParseProps(e)
              [] e.ev = "bseq" -> BseqProps(e)
              [] e.ev = "opaque" -> OpaqueProps(e)
              [] e.ev = "tlookup" -> LookupProps(e)
              [] e.ev = "comb" -> CombProps(e)
              [] e.ev = "pair" -> PairProps(e)
              [] e.ev = "combinv" -> CombInvProps(e)
              [] e.ev = "qvec" -> QvecProps(e)
              [] e.ev = "hparse" -> HParseProps(e)
              [] e.ev = "hbuild" -> HBuildProps(e)
              [] OTHER -> [TOOL |-> FALSE]
FailedProps(e) == LET p == Props(e) IN {k \in DOMAIN p : ~p[k]}
EventOk(e) == FailedProps(e) = {}

\* Stateless events: a rejected event is reported and the trace goes on, so that every
\* event of the file is examined (a rejection 4 events in must not hide the rest).
TraceInit == l = 1
TraceNext == /\ l <= Len(Rec)
             /\ (IF EventOk(Rec[l]) THEN TRUE ELSE PrintT(<<"TRACE-REJECTED", l, FailedProps(Rec[l])>>))
             /\ l' = l + 1
TraceSpec == TraceInit /\ [][TraceNext]_l
TraceAccepted ==
  LET d == TLCGet("stats").diameter IN
  IF d - 1 = Len(Rec) THEN PrintT(<<"TRACE-CONSUMED", Len(Rec)>>)
  ELSE PrintT(<<"TRACE-STUCK", d>>)
=============================================================================
