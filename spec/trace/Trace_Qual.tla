----------------------------- MODULE Trace_Qual -----------------------------
(***************************************************************************)
(* impl -> spec for C11: a long random sequence of public calls on one     *)
(* live Qualifiers value with arbitrary string arguments.  The trace spec  *)
(* carries the sorted-Vec state from event to event: event "q" is accepted *)
(* iff VecApply(vec, op) returns the recorded result and leaves the        *)
(* recorded content, which must also be what the reference map gives.      *)
(* "reset" starts a fresh collection.  A rejected event re-synchronises    *)
(* the state on the recorded content so that the rest is still examined.   *)
(***************************************************************************)
EXTENDS Qualifiers, Json, IOUtils, TLCExt

Rec == ndJsonDeserialize(IOEnv.TRACE)
VARIABLES vec, l
AllTrue(r) == \A k \in DOMAIN r : r[k]
StepOk(e) == LET rv == VecApply(vec, e.op, LowerTab)
                 rm == MapApply(Abs(vec), e.op, LowerTab)
             IN /\ rv.res = e.res /\ rv.vec = e.post                 \* the code follows the machine
                /\ rm.res = e.res /\ MapPairs(rm.m) = e.post         \* and the reference map
                /\ StrictlySorted(e.post) /\ AllTrue(e.coherent)
TraceInit == vec = <<>> /\ l = 1
TraceNext == /\ l <= Len(Rec)
             /\ LET e == Rec[l] IN
                IF e.ev = "reset" THEN vec' = <<>>
                ELSE /\ (IF StepOk(e) THEN TRUE
                         ELSE PrintT(<<"TRACE-REJECTED", l, {IF "panic" \in DOMAIN e.res /\ "panic" \notin DOMAIN VecApply(vec, e.op, LowerTab).res THEN "C06" ELSE "C11"}>>))
                     /\ vec' = e.post
             /\ l' = l + 1
TraceSpec == TraceInit /\ [][TraceNext]_<<vec, l>>
TraceAccepted ==
  LET d == TLCGet("stats").diameter IN
  IF d - 1 = Len(Rec) THEN PrintT(<<"TRACE-CONSUMED", Len(Rec)>>) ELSE PrintT(<<"TRACE-STUCK", d>>)
=============================================================================
