----------------------------- MODULE PurlValue -----------------------------
(***************************************************************************)
(* Value-level definitions: qualifier lists as strictly sorted sequences   *)
(* of <<key, value>>, the checksum text form, the validity predicate of    *)
(* C04, and the comparison laws of C19.                                    *)
(***************************************************************************)
EXTENDS PurlFormat

Err(e) == [ok |-> FALSE, err |-> e]

(***************************************************************************)
(* Abstract qualifier list (what Qualifiers exposes through iter()).       *)
(***************************************************************************)
RECURSIVE QIdxFrom(_, _, _)
QIdxFrom(q, k, i) == IF i > Len(q) THEN 0 ELSE IF q[i][1] = k THEN i ELSE QIdxFrom(q, k, i + 1)
QIdx(q, k) == QIdxFrom(q, k, 1)
QPos(q, k) == 1 + Cardinality({i \in 1..Len(q) : LexLess(q[i][1], k)})
QInsert(q, k, v) == LET i == QIdx(q, k) IN
    IF i # 0 THEN [q EXCEPT ![i] = <<k, v>>]
    ELSE LET p == QPos(q, k) IN Take(q, p - 1) \o <<<<k, v>>>> \o Drop(q, p - 1)
QRemove(q, k) == LET i == QIdx(q, k) IN IF i = 0 THEN q ELSE Take(q, i - 1) \o Drop(q, i)
QGet(q, k) == LET i == QIdx(q, k) IN IF i = 0 THEN <<>> ELSE q[i][2]
QHas(q, k) == QIdx(q, k) # 0
QKeys(q) == {q[i][1] : i \in 1..Len(q)}
QSorted(q) == \A i \in 1..(Len(q) - 1) : LexLess(q[i][1], q[i+1][1])
QNonEmpty(q) == SelectSeq(q, LAMBDA e : e[2] # <<>>)
RECURSIVE QFromPairs(_, _)                       \* insert pairs left to right (later wins)
QFromPairs(ps, q) == IF ps = <<>> THEN q ELSE QFromPairs(Tail(ps), QInsert(q, ps[1][1], ps[1][2]))

CHECKSUM == <<99, 104, 101, 99, 107, 115, 117, 109>>      \* "checksum"

(***************************************************************************)
(* Checksum text form (well_known.rs:107-155).                             *)
(*   CkParse : text -> entries  (split ',', rsplit_once ':', lower-case    *)
(*             the algorithm, duplicate algorithm refused)                 *)
(*   CkText  : entries -> text  (sorted by algorithm, hex validated and    *)
(*             lower-cased).  The empty entry list gives the empty text -  *)
(*             the spec has no capacity arithmetic (defect D2).            *)
(* Entries are kept as a sorted <<alg, hex>> list: the hash map's          *)
(* iteration order is not observable through these two operators because   *)
(* the code sorts before printing; Checksum.tla models the map itself.     *)
(***************************************************************************)
RECURSIVE CkParseItems(_, _, _)
CkParseItems(items, acc, tab) ==
   IF items = <<>> THEN [ok |-> TRUE, a |-> acc]
   ELSE LET it == items[1]  i == LastIdx(it, COLON) IN
        IF i = 0 THEN Err("InvalidQualifier")
        ELSE LET alg == LowerS(Take(it, i - 1), tab)
                 hex == Drop(it, i)
             IN IF QHas(acc, alg) THEN Err("InvalidQualifier")
                ELSE CkParseItems(Tail(items), QInsert(acc, alg, hex), tab)
CkParse(text, tab) == CkParseItems(Split(text, COMMA), <<>>, tab)
HexOk(hex) == All(IsHex, hex) /\ Len(hex) % 2 = 0
RECURSIVE CkText(_)
CkText(a) == IF a = <<>> THEN [ok |-> TRUE, s |-> <<>>]
   ELSE LET hex == a[1][2] IN
        IF ~HexOk(hex) THEN Err("InvalidQualifier")
        ELSE LET r == CkText(Tail(a)) IN
             IF ~r.ok THEN r
             ELSE [ok |-> TRUE, s |-> a[1][1] \o <<COLON>> \o ALowerS(hex)
                                      \o (IF Tail(a) = <<>> THEN <<>> ELSE <<COMMA>> \o r.s)]
CkCanon(text, tab) == LET p == CkParse(text, tab) IN IF ~p.ok THEN p ELSE CkText(p.a)

(***************************************************************************)
(* C04, verbatim.  `generic` says whether the type string is constrained   *)
(* (built-in type parameters) or not (user-supplied shapes).               *)
(***************************************************************************)
NoAsciiUpper(s) == \A i \in 1..Len(s) : ~IsUpper(s[i])
CkWellFormed(text) ==
   LET items == Split(text, COMMA)
       Alg(it) == Take(it, LastIdx(it, COLON) - 1)
       Hex(it) == Drop(it, LastIdx(it, COLON))
   IN /\ \A i \in 1..Len(items) : Contains(items[i], COLON)
      /\ \A i \in 1..Len(items) : All(IsHex, Hex(items[i])) /\ Len(Hex(items[i])) % 2 = 0
      /\ \A i \in 1..(Len(items) - 1) : LexLess(Alg(items[i]), Alg(items[i+1]))
      /\ NoAsciiUpper(text)
ValidParts(v) ==
   /\ v.name # <<>>
   /\ \A i \in 1..Len(v.quals) :
         /\ ValidKey(v.quals[i][1])
         /\ v.quals[i][1] = ALowerS(v.quals[i][1])
         /\ v.quals[i][2] # <<>>
   /\ QSorted(v.quals)
   /\ (QHas(v.quals, CHECKSUM) => CkWellFormed(QGet(v.quals, CHECKSUM)))
ValidTypeStr(t) == ValidType(t) /\ t = ALowerS(t)
Valid(v) == ValidParts(v) /\ ValidTypeStr(v.type)

(***************************************************************************)
(* Derived structural order of GenericPurl<T> (lib.rs:249): package_type,  *)
(* then parts = (namespace, name, version, qualifiers, subpath).           *)
(* Encoded 0 = Equal, 1 = Greater, 2 = Less.  Only the laws are judged.    *)
(***************************************************************************)
RECURSIVE QualsCmp(_, _)
QualsCmp(a, b) == IF a = <<>> /\ b = <<>> THEN 0 ELSE IF a = <<>> THEN 2 ELSE IF b = <<>> THEN 1
                  ELSE LET ck == LexCmp(a[1][1], b[1][1]) IN IF ck # 0 THEN ck
                  ELSE LET cv == LexCmp(a[1][2], b[1][2]) IN IF cv # 0 THEN cv
                  ELSE QualsCmp(Tail(a), Tail(b))
RECURSIVE FirstNonZero(_)
FirstNonZero(xs) == IF xs = <<>> THEN 0 ELSE IF xs[1] # 0 THEN xs[1] ELSE FirstNonZero(Tail(xs))
ValueCmp(a, b) == FirstNonZero(<<LexCmp(a.type, b.type), LexCmp(a.ns, b.ns), LexCmp(a.name, b.name),
                                 LexCmp(a.ver, b.ver), QualsCmp(a.quals, b.quals), LexCmp(a.sub, b.sub)>>)
=============================================================================
