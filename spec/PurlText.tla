----------------------------- MODULE PurlText -----------------------------
(***************************************************************************)
(* Text layer of the purl specification.                                   *)
(*                                                                         *)
(* A string is a sequence of Unicode scalar values (naturals).  Nothing   *)
(* about percent-coding, UTF-8, ASCII case or ordering is assumed: every   *)
(* operator below is computed by TLC.  The only table that is an input is *)
(* the non-ASCII lower-case mapping (LowerTab / the `tab` parameters),     *)
(* see DESIGN.md 2.1 and 9.                                                *)
(***************************************************************************)
EXTENDS Naturals, Sequences, FiniteSets, TLC

SLASH == 47  AT == 64  QM == 63  HASH == 35  AMP == 38  EQ == 61  PCT == 37
DOT == 46  COLON == 58  COMMA == 44  PLUS == 43  DASH == 45  USCORE == 95
SPACE == 32
PKG == <<112, 107, 103, 58>>                       \* "pkg:"

IsUpper(c) == c >= 65 /\ c <= 90
IsLower(c) == c >= 97 /\ c <= 122
IsDigit(c) == c >= 48 /\ c <= 57
IsAlpha(c) == IsUpper(c) \/ IsLower(c)
IsAlnum(c) == IsAlpha(c) \/ IsDigit(c)
IsHex(c) == IsDigit(c) \/ (c >= 65 /\ c <= 70) \/ (c >= 97 /\ c <= 102)
HexVal(c) == IF c <= 57 THEN c - 48 ELSE IF c <= 70 THEN c - 55 ELSE c - 87
HexUp(n) == IF n < 10 THEN 48 + n ELSE 55 + n     \* upper-case hex digit
HexLo(n) == IF n < 10 THEN 48 + n ELSE 87 + n     \* lower-case hex digit
ALower(c) == IF IsUpper(c) THEN c + 32 ELSE c
AUpper(c) == IF IsLower(c) THEN c - 32 ELSE c
ALowerS(s) == [i \in 1..Len(s) |-> ALower(s[i])]
AUpperS(s) == [i \in 1..Len(s) |-> AUpper(s[i])]
All(P(_), s) == \A i \in 1..Len(s) : P(s[i])
AnyOf(P(_), s) == \E i \in 1..Len(s) : P(s[i])
IsAscii(s) == \A i \in 1..Len(s) : s[i] < 128
IsScalar(c) == c \in Nat /\ c <= 1114111 /\ ~(c >= 55296 /\ c <= 57343)

(* is_valid_package_type (lib.rs:380) and is_valid_qualifier_name (qualifiers.rs:513) *)
TypeChar(c) == IsAlnum(c) \/ c \in {DOT, PLUS, DASH}
KeyChar(c) == IsAlnum(c) \/ c \in {DOT, DASH, USCORE}
ValidType(s) == s # <<>> /\ All(TypeChar, s)
ValidKey(s) == s # <<>> /\ All(KeyChar, s)

Drop(s, n) == SubSeq(s, n + 1, Len(s))
Take(s, n) == SubSeq(s, 1, n)
StartsWith(s, p) == Len(s) >= Len(p) /\ Take(s, Len(p)) = p
Contains(s, c) == \E i \in 1..Len(s) : s[i] = c

\* first / last index of c in s (0 if none)
RECURSIVE FirstFrom(_, _, _)
FirstFrom(s, c, i) == IF i > Len(s) THEN 0 ELSE IF s[i] = c THEN i ELSE FirstFrom(s, c, i + 1)
FirstIdx(s, c) == FirstFrom(s, c, 1)
RECURSIVE LastFrom(_, _, _)
LastFrom(s, c, i) == IF i = 0 THEN 0 ELSE IF s[i] = c THEN i ELSE LastFrom(s, c, i - 1)
LastIdx(s, c) == LastFrom(s, c, Len(s))

RECURSIVE Split(_, _)                               \* str::split(c): always >= 1 piece
Split(s, c) == LET i == FirstIdx(s, c) IN
               IF i = 0 THEN <<s>> ELSE <<Take(s, i - 1)>> \o Split(Drop(s, i), c)
RECURSIVE TrimStart(_, _)
TrimStart(s, c) == IF s # <<>> /\ s[1] = c THEN TrimStart(Tail(s), c) ELSE s
RECURSIVE TrimEnd(_, _)
TrimEnd(s, c) == IF s # <<>> /\ s[Len(s)] = c THEN TrimEnd(Take(s, Len(s) - 1), c) ELSE s
Trim(s, c) == TrimEnd(TrimStart(s, c), c)
RECURSIVE Join(_, _)
Join(ss, c) == IF ss = <<>> THEN <<>> ELSE IF Len(ss) = 1 THEN ss[1]
               ELSE ss[1] \o <<c>> \o Join(Tail(ss), c)
RECURSIVE Concat(_)
Concat(ss) == IF ss = <<>> THEN <<>> ELSE ss[1] \o Concat(Tail(ss))

\* lexicographic order on code point sequences ( = byte order of the UTF-8 forms)
RECURSIVE LexLess(_, _)
LexLess(a, b) == IF b = <<>> THEN FALSE ELSE IF a = <<>> THEN TRUE
                 ELSE IF a[1] < b[1] THEN TRUE ELSE IF a[1] > b[1] THEN FALSE
                 ELSE LexLess(Tail(a), Tail(b))
\* three-way comparison, encoded 0 = Equal, 1 = Greater, 2 = Less (Naturals has no negatives)
LexCmp(a, b) == IF a = b THEN 0 ELSE IF LexLess(a, b) THEN 2 ELSE 1

(***************************************************************************)
(* UTF-8                                                                   *)
(***************************************************************************)
Utf8Enc(c) == IF c < 128 THEN <<c>>
              ELSE IF c < 2048 THEN <<192 + (c \div 64), 128 + (c % 64)>>
              ELSE IF c < 65536 THEN <<224 + (c \div 4096), 128 + ((c \div 64) % 64), 128 + (c % 64)>>
              ELSE <<240 + (c \div 262144), 128 + ((c \div 4096) % 64), 128 + ((c \div 64) % 64), 128 + (c % 64)>>
RECURSIVE Utf8EncS(_)
Utf8EncS(s) == IF s = <<>> THEN <<>> ELSE Utf8Enc(Head(s)) \o Utf8EncS(Tail(s))
Cont(b) == b >= 128 /\ b <= 191
Bad == [ok |-> FALSE, s |-> <<>>]
RECURSIVE Utf8Dec(_)
Utf8Dec(b) ==
  IF b = <<>> THEN [ok |-> TRUE, s |-> <<>>]
  ELSE LET b1 == b[1]
           n == Len(b)
           Step(k, cp) == LET r == Utf8Dec(SubSeq(b, k+1, n)) IN
                          IF r.ok THEN [ok |-> TRUE, s |-> <<cp>> \o r.s] ELSE r
       IN IF b1 < 128 THEN Step(1, b1)
          ELSE IF b1 >= 194 /\ b1 <= 223 THEN
                 IF n >= 2 /\ Cont(b[2]) THEN Step(2, (b1 - 192) * 64 + (b[2] - 128)) ELSE Bad
          ELSE IF b1 >= 224 /\ b1 <= 239 THEN
                 IF n >= 3 /\ Cont(b[2]) /\ Cont(b[3])
                    /\ (b1 # 224 \/ b[2] >= 160) /\ (b1 # 237 \/ b[2] <= 159)
                 THEN Step(3, (b1 - 224) * 4096 + (b[2] - 128) * 64 + (b[3] - 128)) ELSE Bad
          ELSE IF b1 >= 240 /\ b1 <= 244 THEN
                 IF n >= 4 /\ Cont(b[2]) /\ Cont(b[3]) /\ Cont(b[4])
                    /\ (b1 # 240 \/ b[2] >= 144) /\ (b1 # 244 \/ b[2] <= 143)
                 THEN Step(4, (b1 - 240) * 262144 + (b[2] - 128) * 4096 + (b[3] - 128) * 64 + (b[4] - 128))
                 ELSE Bad
          ELSE Bad

(***************************************************************************)
(* Percent coding.  PctDec is lenient exactly as percent_decode_str: a '%' *)
(* that is not followed by two hex digits stays literal.                   *)
(***************************************************************************)
RECURSIVE PctDec(_)
PctDec(b) == IF b = <<>> THEN <<>>
             ELSE IF b[1] = PCT /\ Len(b) >= 3 /\ IsHex(b[2]) /\ IsHex(b[3])
                  THEN <<16 * HexVal(b[2]) + HexVal(b[3])>> \o PctDec(Drop(b, 3))
                  ELSE <<b[1]>> \o PctDec(Tail(b))
Decode(s) == Utf8Dec(PctDec(Utf8EncS(s)))          \* parse.rs:297 decode()
RECURSIVE PctEncB(_, _)
PctEncB(b, set) == IF b = <<>> THEN <<>>
                   ELSE (IF b[1] >= 128 \/ b[1] \in set
                         THEN <<PCT, HexUp(b[1] \div 16), HexUp(b[1] % 16)>> ELSE <<b[1]>>)
                        \o PctEncB(Tail(b), set)
PctEnc(s, set) == PctEncB(Utf8EncS(s), set)         \* utf8_percent_encode(s, set)
\* %XX spelling of one scalar value, upper / lower hex
EscUp(c) == LET RECURSIVE E(_)
                E(b) == IF b = <<>> THEN <<>> ELSE <<PCT, HexUp(b[1] \div 16), HexUp(b[1] % 16)>> \o E(Tail(b))
            IN E(Utf8Enc(c))
EscLo(c) == LET RECURSIVE E(_)
                E(b) == IF b = <<>> THEN <<>> ELSE <<PCT, HexLo(b[1] \div 16), HexLo(b[1] % 16)>> \o E(Tail(b))
            IN E(Utf8Enc(c))
\* every '%' starts a well-formed escape
RECURSIVE PctStrict(_)
PctStrict(s) == IF s = <<>> THEN TRUE
                ELSE IF s[1] = PCT THEN Len(s) >= 3 /\ IsHex(s[2]) /\ IsHex(s[3]) /\ PctStrict(Drop(s, 3))
                ELSE PctStrict(Tail(s))

(***************************************************************************)
(* Unicode lower-casing.  ASCII is arithmetic.  For other characters the   *)
(* mapping is an input: `tab` is a function from scalar values to their    *)
(* char::to_lowercase() expansion; characters not in its domain map to     *)
(* themselves.  LowerTab is the table of representatives used by the MC    *)
(* models; trace specifications receive the table in the recorded events.  *)
(***************************************************************************)
LowerTab == (198 :> <<230>>)          \* U+00C6 AE  -> ae
         @@ (201 :> <<233>>)          \* U+00C9 E'  -> e'
         @@ (453 :> <<454>>)          \* U+01C5 Dz (titlecase) -> dz
         @@ (304 :> <<105, 775>>)     \* U+0130 I-dot -> i + combining dot
         @@ (931 :> <<963>>)          \* U+03A3 Sigma -> sigma
         @@ (9398 :> <<9424>>)        \* U+24B6 circled A (Other_Uppercase) -> circled a
         @@ (8490 :> <<107>>)         \* U+212A Kelvin -> k
         @@ (65313 :> <<65345>>)      \* U+FF21 full-width A -> full-width a
LowerC(c, tab) == IF c < 128 THEN <<ALower(c)>> ELSE IF c \in DOMAIN tab THEN tab[c] ELSE <<c>>
RECURSIVE LowerS(_, _)
LowerS(s, tab) == IF s = <<>> THEN <<>> ELSE LowerC(s[1], tab) \o LowerS(Tail(s), tab)

\* sequence helpers
Range(f) == {f[i] : i \in DOMAIN f}
RECURSIVE SortStrs(_)                                \* set of strings -> ascending sequence
SortStrs(S) == IF S = {} THEN <<>>
               ELSE LET m == CHOOSE x \in S : \A y \in S : x = y \/ LexLess(x, y)
                    IN <<m>> \o SortStrs(S \ {m})
=============================================================================
