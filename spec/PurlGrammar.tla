---------------------------- MODULE PurlGrammar ----------------------------
(***************************************************************************)
(* The independent side for the parser: what the properties demand of a    *)
(* string, written without reference to the parser's procedure.            *)
(*                                                                         *)
(* StrictRead is a left-to-right, first-occurrence reader.  Its answer is  *)
(*   [kind |-> "accept", v |-> value]  the string is a strict spelling     *)
(*        (C02: parsing must yield exactly v),                             *)
(*   [kind |-> "fault", cls |-> set]   listed faults of C05 are present    *)
(*        (one class: that error is demanded; several: any error),         *)
(*   [kind |-> "nonstrict"]            uses a freedom this reader does not *)
(*        cover (second raw '#', raw '?' among the qualifiers, raw '@' in  *)
(*        the version, '%' without two hex digits, a key repeated with an  *)
(*        empty value, scheme in another letter case, type or key not      *)
(*        starting with a letter).  Such strings are left to the Writer    *)
(*        (PurlWriter.tla) and to the region-free predicates below.        *)
(* Judge turns that into the verdict printed with every case.              *)
(***************************************************************************)
EXTENDS PurlDefects

KeyOf(it) == Take(it, FirstIdx(it, EQ) - 1)
ValOf(it) == Drop(it, FirstIdx(it, EQ))
KeptSegs(segs, sub) == SelectSeq(segs, LAMBDA g : g # <<>> /\ ~(sub /\ DotSeg(g)))
RECURSIVE DecAll(_)
DecAll(segs) == IF segs = <<>> THEN <<>> ELSE <<Decode(segs[1]).s>> \o DecAll(Tail(segs))
SegFaulty(g, sub) == LET d == Decode(g) IN ~d.ok \/ Contains(d.s, SLASH) \/ (sub /\ DotSeg(d.s))
SegFaults(segs, sub) == IF \E j \in 1..Len(segs) : segs[j] # <<>> /\ ~(sub /\ DotSeg(segs[j])) /\ SegFaulty(segs[j], sub)
                        THEN {"InvalidEscape"} ELSE {}

\* anatomy of a string under first-occurrence reading
Anatomy(s) ==
  LET r == TrimStart(Drop(s, 4), SLASH)
      ih == FirstIdx(r, HASH)
      subR == IF ih = 0 THEN <<>> ELSE Drop(r, ih)
      r1 == IF ih = 0 THEN r ELSE Take(r, ih - 1)
      iq == FirstIdx(r1, QM)
      qR == IF iq = 0 THEN <<>> ELSE Drop(r1, iq)
      path == IF iq = 0 THEN r1 ELSE Take(r1, iq - 1)
      it == FirstIdx(path, SLASH)
      type == IF it = 0 THEN path ELSE Take(path, it - 1)
      rest == IF it = 0 THEN <<>> ELSE Drop(path, it)
      ia == FirstIdx(rest, AT)
      verR == IF ia = 0 THEN <<>> ELSE Drop(rest, ia)
      after == IF ia = 0 THEN rest ELSE Take(rest, ia - 1)
      segs == Split(after, SLASH)
  IN [subR |-> subR, hasSub |-> ih # 0, qR |-> qR, hasQ |-> iq # 0, path |-> path, hasSlash |-> it # 0,
      type |-> type, verR |-> verR, hasVer |-> ia # 0,
      nameRaw |-> segs[Len(segs)], nsSegs |-> Take(segs, Len(segs) - 1),
      items |-> IF iq # 0 THEN Split(qR, AMP) ELSE <<>>,
      subSegs |-> Split(Trim(subR, SLASH), SLASH)]

StrictRead(s, shape, tab) ==
  IF ~StartsWith(s, PKG) THEN
     (IF Len(s) >= 4 /\ ALowerS(Take(s, 4)) = PKG THEN [kind |-> "nonstrict"]
      ELSE [kind |-> "fault", cls |-> {"UnsupportedUrlScheme", "free"}])
  ELSE
  LET a == Anatomy(s)
      items == a.items
      noEq == {i \in 1..Len(items) : ~Contains(items[i], EQ)}
      withEq == SelectSeq(items, LAMBDA x : Contains(x, EQ))
      badKey == {i \in 1..Len(withEq) : ~ValidKey(KeyOf(withEq[i]))}
      badVal == {i \in 1..Len(withEq) : ~Decode(ValOf(withEq[i])).ok}
      dup == {pr \in (1..Len(withEq)) \X (1..Len(withEq)) :
                 pr[1] < pr[2] /\ ALowerS(KeyOf(withEq[pr[1]])) = ALowerS(KeyOf(withEq[pr[2]]))}
      dupHard == {pr \in dup : ValOf(withEq[pr[1]]) # <<>> /\ ValOf(withEq[pr[2]]) # <<>>}
      \* a malformed checksum is a listed fault wherever else the string is faulty (two faults: the class is free)
      ckBad == \E i \in 1..Len(withEq) : /\ ALowerS(KeyOf(withEq[i])) = CHECKSUM
                                         /\ LET d == Decode(ValOf(withEq[i])) IN d.ok /\ d.s # <<>> /\ ~CkCanon(d.s, tab).ok
      typed == shape.kind = "typed"
      W(e) == IF typed THEN "Parse:" \o e ELSE e
      typeBad == a.path # <<>> /\ ~ValidType(a.type)
      nsKept == KeptSegs(a.nsSegs, FALSE)
      faults == (IF a.path = <<>> THEN {W("MissingType")} ELSE {})
                \cup (IF typeBad THEN {W("InvalidPackageType")} ELSE {})
                \cup (IF a.path # <<>> /\ (~a.hasSlash \/ a.nameRaw = <<>>) THEN {W("MissingName")} ELSE {})
                \cup (IF ~Decode(a.nameRaw).ok \/ ~Decode(a.verR).ok THEN {W("InvalidEscape")} ELSE {})
                \cup {W(e) : e \in SegFaults(a.nsSegs, FALSE) \cup SegFaults(a.subSegs, TRUE)}
                \cup (IF noEq # {} \/ badKey # {} \/ dupHard # {} \/ ckBad THEN {W("InvalidQualifier")} ELSE {})
                \cup (IF badVal # {} THEN {W("InvalidEscape")} ELSE {})
                \cup (IF typed /\ a.path # <<>> /\ ~typeBad /\ ~Lookup(a.type).ok THEN {"UnsupportedType"} ELSE {})
                \cup (IF typed /\ ALowerS(a.type) = MAVEN /\ nsKept = <<>> THEN {"MissingNamespace"} ELSE {})
      lenient == \/ Contains(a.subR, HASH) \/ Contains(a.qR, QM) \/ Contains(a.verR, AT)
                 \/ ~PctStrict(Drop(s, 4))
                 \/ (ValidType(a.type) /\ ~IsAlpha(a.type[1]))
                 \/ \E i \in 1..Len(withEq) : ValidKey(KeyOf(withEq[i])) /\ ~IsAlpha(KeyOf(withEq[i])[1])
  IN IF lenient THEN [kind |-> "nonstrict"]
     \* a key repeated with an empty value is unjudged (the code refuses `a=b&A=` and accepts `a=&a=b`): next to
     \* a listed fault it makes the error class free
     ELSE IF faults # {} THEN [kind |-> "fault", cls |-> IF dup # dupHard THEN faults \cup {"free"} ELSE faults]
     ELSE IF dup # {} THEN [kind |-> "nonstrict"]
     ELSE LET kept == SelectSeq(withEq, LAMBDA x : Decode(ValOf(x)).s # <<>>)
              RECURSIVE Ins(_, _)
              Ins(xs, q) == IF xs = <<>> THEN q
                            ELSE Ins(Tail(xs), QInsert(q, ALowerS(KeyOf(xs[1])), Decode(ValOf(xs[1])).s))
              q0 == Ins(kept, <<>>)
              ck == IF QHas(q0, CHECKSUM) THEN CkCanon(QGet(q0, CHECKSUM), tab) ELSE [ok |-> TRUE, s |-> <<>>]
              t == ALowerS(a.type)
              name0 == Decode(a.nameRaw).s
              name == IF typed /\ t = NUGET THEN NugetName(name0, tab)
                      ELSE IF typed /\ t = PYPI THEN PypiName(name0, tab) ELSE name0
          IN IF ~ck.ok THEN [kind |-> "fault", cls |-> {W("InvalidQualifier")}]
             ELSE [kind |-> "accept",
                   v |-> [type |-> t, ns |-> Join(DecAll(nsKept), SLASH), name |-> name,
                          ver |-> Decode(a.verR).s,
                          quals |-> IF QHas(q0, CHECKSUM) THEN QInsert(q0, CHECKSUM, ck.s) ELSE q0,
                          sub |-> Join(DecAll(KeptSegs(a.subSegs, TRUE)), SLASH)]]

(***************************************************************************)
(* Region-free never-accept predicates (C05, "never accepted" clause) for  *)
(* strings the strict reader does not judge.                               *)
(***************************************************************************)
\* (letter-case variants of the scheme itself are not judged, C05)
SchemeVariant(s) == Len(s) >= 4 /\ ALowerS(Take(s, 4)) = PKG
NeverAccept(s) == (~StartsWith(s, PKG) /\ ~SchemeVariant(s)) \/ ~Decode(s).ok

(***************************************************************************)
(* Verdict printed with every case:                                        *)
(*   j = "acc"  : out must be Accept(v) with canonical string str          *)
(*   j = "err"  : out must be the error `err`                              *)
(*   j = "rej"  : out must be an error, class free                         *)
(*   j = "un"   : unjudged; only the universal properties apply            *)
(***************************************************************************)
JudgeRaw(s, shape, tab) ==
  LET r == StrictRead(s, shape, tab) IN
  IF r.kind = "accept" THEN [j |-> "acc", v |-> r.v, str |-> Render(r.v)]
  ELSE IF r.kind = "fault" THEN
       (IF Cardinality(r.cls) = 1 THEN [j |-> "err", err |-> CHOOSE e \in r.cls : TRUE] ELSE [j |-> "rej"])
  ELSE IF NeverAccept(s) THEN [j |-> "rej"] ELSE [j |-> "un"]
\* C05 fixes the class "when that defect is the only one": the reader's class is demanded only if the order-free
\* analysis (PurlDefects) finds no second defect; MC_Parse / MC_Spell check that it always finds the reader's own
Judge(s, shape, tab) == Demote(JudgeRaw(s, shape, tab), AllDefects(s, shape, tab))

\* design-level agreement between the transcribed parser and the verdict
Agrees(out, jd) ==
  CASE jd.j = "acc" -> out.ok /\ out.v = jd.v /\ FormatSpec(out.v) = jd.str
    [] jd.j = "err" -> ~out.ok /\ out.err = jd.err
    [] jd.j = "rej" -> ~out.ok
    [] OTHER -> TRUE
=============================================================================
