---------------------------- MODULE ShapeMachine ----------------------------
(***************************************************************************)
(* One parse or one build with a user-supplied shape, as the steps at      *)
(* which the library calls back into user code (C14):                      *)
(*                                                                         *)
(*   MBegin  - from_str(s) / build() is entered                            *)
(*   MConv   - the shape's string-to-type conversion is called             *)
(*   MFinish - the shape's finish hook is called                           *)
(*   MEnd    - the call returns                                            *)
(*                                                                         *)
(* The machine states what C14 states and no more.  In particular it does  *)
(* not fix WHEN, between MBegin and MEnd, the library looks at the other   *)
(* components of the string: the conversion may be called as soon as the   *)
(* type substring is known to be well-formed, whether or not a qualifier   *)
(* or the subpath turns out to be broken later, and when the input has     *)
(* several independent defects any of their errors may be returned.  The   *)
(* order the library uses today (PurlParse!ParseF: subpath, qualifiers,    *)
(* type, conversion, version, namespace, name, build) is one behaviour of  *)
(* the machine - MC_Shapes checks that (LibraryOrderAdmitted) - and so is  *)
(* every other order a maintainer may choose.  What the machine does fix:  *)
(*   - conversion: at most once, only during a parse, only before the      *)
(*     hook, only with the type substring exactly as written, and only if  *)
(*     that substring is a syntactically valid type;                       *)
(*   - hook: at most once, only after a successful conversion (parse) /    *)
(*     exactly once (build), on the fully decoded parts;                   *)
(*   - a failed conversion or hook ends the call with that very error;     *)
(*   - without any defect the call cannot end before the hook has run, and *)
(*     the result is what the hook left, after the generic checks (empty   *)
(*     name refused, empty-valued qualifiers dropped, checksum canonical   *)
(*     or refused).                                                        *)
(* The actions take the observed values as arguments, so that MC_Shapes    *)
(* can generate the allowed behaviours and Trace_Shapes can check recorded *)
(* ones.                                                                   *)
(***************************************************************************)
EXTENDS PurlDefects

VARIABLES pc,        \* "idle", "open", "end"
          shape,     \* parameters of the shape in use
          entry,     \* "parse" | "build"
          info,      \* what the input string says, independent of any order of evaluation (parse entry)
          conv,      \* "none" | "ok" | "failed"
          hook,      \* "none" | "ok" | "failed"
          st, parts, \* shape value and parts: before the hook what it will be given, after it what it left
          out,       \* the outcome the call returned (set by MEnd)
          nConv, nFin
mvars == <<pc, shape, entry, info, conv, hook, st, parts, out, nConv, nFin>>

MInit == /\ pc = "idle" /\ shape = [kind |-> "test", conv |-> TRUE, fin |-> TRUE, edits |-> <<>>]
         /\ entry = "none" /\ info = NoInfo /\ conv = "none" /\ hook = "none" /\ st = <<>> /\ parts = NoParts
         /\ out = [ok |-> FALSE, err |-> "none"] /\ nConv = 0 /\ nFin = 0

\* The machine is written for any shape: the built-in ones (Generic, Typed) take the same steps, their
\* conversion and hook being library code.
MBeginParse(s, shp) ==
  /\ pc \in {"idle", "end"} /\ pc' = "open" /\ shape' = shp /\ entry' = "parse" /\ nConv' = 0 /\ nFin' = 0
  /\ info' = Analyse(s) /\ conv' = "none" /\ hook' = "none" /\ st' = <<>> /\ parts' = Analyse(s).parts /\ out' = out
MBeginBuild(st0, parts0, shp) ==
  /\ pc \in {"idle", "end"} /\ pc' = "open" /\ shape' = shp /\ entry' = "build" /\ nConv' = 0 /\ nFin' = 0
  /\ info' = NoInfo /\ conv' = "none" /\ hook' = "none" /\ st' = st0 /\ parts' = parts0 /\ out' = out

\* the conversion is called with `arg`: once, before the hook, only with the valid type as written
CanConv(arg) == /\ pc = "open" /\ entry = "parse" /\ conv = "none" /\ hook = "none"
                /\ info.typeKnown /\ arg = info.type
MConv(arg) ==
  /\ CanConv(arg)
  /\ nConv' = nConv + 1
  /\ LET c == ShapeConv(shape, arg) IN
     IF c.ok THEN conv' = "ok" /\ st' = c.st ELSE conv' = "failed" /\ st' = st
  /\ UNCHANGED <<pc, shape, entry, info, hook, parts, out, nFin>>

\* the hook is called on `before` and leaves `after` (hookOk: whether it reported success)
\* (what a parse hands to the hook is fixed up to empty-valued qualifiers: C14 says they are removed after the hook,
\* not whether the hook gets to see them)
CanFinish(before) == /\ pc = "open" /\ hook = "none"
                     /\ IF entry = "parse" THEN conv = "ok" /\ info.clean /\ StepRetain(before) = StepRetain(parts)
                        ELSE before = parts
MFinish(before, after, hookOk) ==
  /\ CanFinish(before)
  /\ nFin' = nFin + 1
  /\ LET r == StepFinish(shape, st, before, LowerTab) IN
     /\ hookOk = r.ok
     /\ IF r.ok THEN after = r.parts /\ parts' = after /\ st' = r.st /\ hook' = "ok"
        ELSE after = before /\ parts' = parts /\ st' = st /\ hook' = "failed"
  /\ UNCHANGED <<pc, shape, entry, info, conv, out, nConv>>

\* the generic checks that run after the hook; with two defects either error may be reported
AfterHookOf(shp, st1, p) ==
  LET n == StepCheckName(shp, p)
      c == StepChecksum(shp, StepRetain(p), LowerTab)
  IN IF n.ok /\ c.ok THEN {[ok |-> TRUE, v |-> MkValue(shp, st1, c.parts)]}
     ELSE (IF n.ok THEN {} ELSE {n}) \cup (IF c.ok THEN {} ELSE {c})
AfterHook(st1, p) == AfterHookOf(shape, st1, p)
\* the outcomes with which the call may return in the current state
ConvFailure == ShapeConv(shape, info.type)
HookFailure == StepFinish(shape, st, parts, LowerTab)
AllowedOut ==
  IF conv = "failed" THEN {ConvFailure}
  ELSE IF hook = "failed" THEN {HookFailure}
  ELSE IF hook = "ok" THEN AfterHook(st, parts)
  ELSE IF entry = "parse" THEN {Err(WrapErr(shape, e)) : e \in info.defects}       \* nothing to return unless there is a defect
  ELSE {}                                                                            \* build() never returns before the hook
CanEnd(o) == pc = "open" /\ o \in AllowedOut
MEnd(o) == /\ CanEnd(o) /\ out' = o /\ pc' = "end"
           /\ UNCHANGED <<shape, entry, info, conv, hook, st, parts, nConv, nFin>>

(***************************************************************************)
(* The same as functions of the input: everything a call may return and    *)
(* how often the callbacks may have run when it does (used for the cases   *)
(* TLC hands to the replay; MC_Shapes checks them against the machine).    *)
(***************************************************************************)
AllowedParse(s, shp) ==
  LET a == Analyse(s) IN
  IF a.clean THEN
     LET c == ShapeConv(shp, a.type) IN
     IF ~c.ok THEN [outs |-> {c}, nconv |-> {1}, nfin |-> {0}]
     ELSE LET r == StepFinish(shp, c.st, a.parts, LowerTab) IN
          [outs |-> IF r.ok THEN AfterHookOf(shp, r.st, r.parts) ELSE {r}, nconv |-> {1}, nfin |-> {1}]
  ELSE [outs |-> {Err(WrapErr(shp, e)) : e \in a.defects}
                 \cup (IF a.typeKnown /\ ~ShapeConv(shp, a.type).ok THEN {ShapeConv(shp, a.type)} ELSE {}),
        nconv |-> IF a.typeKnown THEN {0, 1} ELSE {0}, nfin |-> {0}]
AllowedBuild(st0, parts0, shp) ==
  LET r == StepFinish(shp, st0, parts0, LowerTab) IN
  [outs |-> IF r.ok THEN AfterHookOf(shp, r.st, r.parts) ELSE {r}, nconv |-> {0}, nfin |-> {1}]

(***************************************************************************)
(* C14 as properties of the machine.                                       *)
(***************************************************************************)
C14_Counts == nConv <= 1 /\ nFin <= 1
                /\ (nFin = 1 => (entry = "build" \/ (nConv = 1 /\ conv = "ok")))   \* never before the conversion succeeded
                /\ (entry = "build" => nConv = 0)
C14_AtEnd == pc = "end" =>
     /\ (out.ok => nFin = 1)                                               \* exactly once per successful build
     /\ (entry = "build" => nFin = 1)                                      \* exactly once per build()
     /\ (conv = "failed" => (~out.ok /\ out = ConvFailure /\ nFin = 0))    \* errors are returned unchanged
     /\ (hook = "failed" => (~out.ok /\ out = HookFailure))
     /\ (~out.ok /\ out.err = "ConvError" => nConv = 1 /\ nFin = 0 /\ shape.kind = "test" /\ ~shape.conv)
     /\ (~out.ok /\ out.err = "HookError" => nFin = 1 /\ shape.kind = "test" /\ ~shape.fin)
     /\ (out.ok => ValidFor(shape, out.v))                                      \* generic checks ran after the hook
     /\ (out.ok => out.v.name = parts.name /\ out.v.ns = parts.ns /\ out.v.ver = parts.ver /\ out.v.sub = parts.sub)
=============================================================================
