---------------------------- MODULE ShapeMachine ----------------------------
(***************************************************************************)
(* One parse or one build with a user-supplied shape, as the steps at      *)
(* which the library calls back into user code (C14):                      *)
(*                                                                         *)
(*   MBegin  - from_str(s) / build() is entered                            *)
(*   MConv   - the shape's string-to-type conversion is called             *)
(*   MFinish - the shape's finish hook is called                           *)
(*   MEnd    - the call returns                                            *)
(*                                                                         *)
(* Everything the library does between two callbacks is folded into the    *)
(* action that precedes it (ParseFront before MConv, ParseBack before      *)
(* MFinish, name check / retain / checksum before MEnd).  The actions take *)
(* the observed values as arguments, so that MC_Shapes can generate the    *)
(* allowed behaviours and Trace_Shapes can check recorded ones.            *)
(***************************************************************************)
EXTENDS PurlParse

VARIABLES pc,        \* "idle", "conv", "finish", "end"
          shape,     \* parameters of the test shape in use
          entry,     \* "parse" | "build"
          front,     \* result of ParseFront (parse entry)
          st, parts, \* shape value and parts handed to the next stage
          out,       \* outcome the call must return
          nConv, nFin
mvars == <<pc, shape, entry, front, st, parts, out, nConv, nFin>>

MInit == /\ pc = "idle" /\ shape = [kind |-> "test", conv |-> TRUE, fin |-> TRUE, edits |-> <<>>]
         /\ entry = "none" /\ front = [ok |-> FALSE] /\ st = <<>> /\ parts = NoParts
         /\ out = [ok |-> FALSE, err |-> "none"] /\ nConv = 0 /\ nFin = 0

\* The machine is written for any shape: the built-in ones (Generic, Typed) take the same steps, their
\* conversion and hook being library code; MC_Shapes checks MachineIsParseF for them as well.
MBeginParse(s, shp) ==
  /\ pc = "idle" /\ shape' = shp /\ entry' = "parse" /\ nConv' = 0 /\ nFin' = 0
  /\ LET f == ParseFront(s) IN
     /\ front' = f /\ st' = <<>> /\ parts' = NoParts
     /\ IF f.ok THEN pc' = "conv" /\ out' = out ELSE pc' = "end" /\ out' = Err(WrapErr(shp, f.err))
MBeginBuild(st0, parts0, shp) ==
  /\ pc = "idle" /\ shape' = shp /\ entry' = "build" /\ nConv' = 0 /\ nFin' = 0
  /\ front' = [ok |-> FALSE] /\ st' = st0 /\ parts' = parts0 /\ pc' = "finish" /\ out' = out
\* the conversion is called with `arg`: only now, only once, only with the type as written
MConv(arg) ==
  /\ pc = "conv" /\ arg = front.type /\ ValidType(arg)
  /\ nConv' = nConv + 1
  /\ LET c == ShapeConv(shape, arg) IN
     IF ~c.ok THEN pc' = "end" /\ out' = c /\ UNCHANGED <<st, parts>>
     ELSE LET bk == ParseBack(front) IN
          IF bk.ok THEN pc' = "finish" /\ st' = c.st /\ parts' = bk.parts /\ out' = out
          ELSE pc' = "end" /\ out' = Err(WrapErr(shape, bk.err)) /\ UNCHANGED <<st, parts>>
  /\ UNCHANGED <<shape, entry, front, nFin>>
\* the hook is called on `before` and leaves `after`; then the generic checks run
AfterHook(st1, p) ==
  LET n == StepCheckName(shape, p) IN
  IF ~n.ok THEN n ELSE
  LET c == StepChecksum(shape, StepRetain(p), LowerTab) IN
  IF ~c.ok THEN c ELSE [ok |-> TRUE, v |-> MkValue(shape, st1, c.parts)]
MFinish(before, after, hookOk) ==
  /\ pc = "finish" /\ before = parts
  /\ nFin' = nFin + 1
  /\ LET r == StepFinish(shape, st, before, LowerTab) IN
     /\ hookOk = r.ok
     /\ IF r.ok THEN after = r.parts /\ parts' = after /\ st' = r.st /\ out' = AfterHook(r.st, after)
        ELSE parts' = parts /\ st' = st /\ out' = r
  /\ pc' = "end"
  /\ UNCHANGED <<shape, entry, front, nConv>>
MEnd(o) == /\ pc = "end" /\ o = out /\ pc' = "idle"
           /\ UNCHANGED <<shape, entry, front, st, parts, out, nConv, nFin>>

(***************************************************************************)
(* C14 as properties of the machine.                                       *)
(***************************************************************************)
C14_Counts == nConv <= 1 /\ nFin <= 1
                /\ (nFin = 1 => (entry = "build" \/ nConv = 1))          \* never before the conversion succeeded
                /\ (entry = "build" => nConv = 0)
C14_AtEnd == pc = "end" =>
     /\ (out.ok => nFin = 1)                                               \* exactly once per successful build
     /\ (~out.ok /\ out.err = "ConvError" => nConv = 1 /\ nFin = 0 /\ shape.kind = "test" /\ ~shape.conv)
     /\ (~out.ok /\ out.err = "HookError" => nFin = 1 /\ shape.kind = "test" /\ ~shape.fin)
     /\ (out.ok => ValidFor(shape, out.v))                                      \* generic checks ran after the hook
     /\ (out.ok => out.v.name = parts.name /\ out.v.ns = parts.ns /\ out.v.ver = parts.ver /\ out.v.sub = parts.sub)
=============================================================================
