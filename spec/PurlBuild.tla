----------------------------- MODULE PurlBuild -----------------------------
(***************************************************************************)
(* GenericPurlBuilder::build (builder.rs:190-214) as four steps, and the   *)
(* shapes (type parameters) that supply the first one.                     *)
(*                                                                         *)
(* A builder is [st, parts]: `st` is the shape value (the type string for  *)
(* the generic shapes, the type name for PackageType, a record for test    *)
(* shapes), `parts` = [ns, name, ver, quals, sub].  `quals` is always a    *)
(* strictly sorted list with valid lower-case keys: Qualifiers admits      *)
(* nothing else (C11), even through the public `parts` field.              *)
(***************************************************************************)
EXTENDS PurlTypes

Generic == [kind |-> "generic"]
Typed == [kind |-> "typed"]
NoParts == [ns |-> <<>>, name |-> <<>>, ver |-> <<>>, quals |-> <<>>, sub |-> <<>>]

\* error conversion T::Error::from(ParseError)
WrapErr(shape, e) == IF shape.kind \in {"typed", "test"} THEN "Parse:" \o e ELSE e

(***************************************************************************)
(* User-supplied shapes (C14): a parameterised family.                     *)
(*   shape = [kind |-> "test", conv |-> BOOLEAN, fin |-> BOOLEAN,          *)
(*            edits |-> sequence of edits the finish hook performs]        *)
(* The shape value `st` is the type string exactly as it was handed to the *)
(* conversion (or to the builder); package_type() reports its ASCII lower  *)
(* case.  Edits go through the public PurlParts fields, i.e. qualifier     *)
(* edits go through Qualifiers::insert / remove (invalid keys are refused  *)
(* there and the hook ignores that).                                       *)
(***************************************************************************)
ApplyEdit(parts, e) ==
   CASE e[1] = "clearName" -> [parts EXCEPT !.name = <<>>]
     [] e[1] = "setName" -> [parts EXCEPT !.name = e[2]]
     [] e[1] = "setNs" -> [parts EXCEPT !.ns = e[2]]
     [] e[1] = "setVer" -> [parts EXCEPT !.ver = e[2]]
     [] e[1] = "setSub" -> [parts EXCEPT !.sub = e[2]]
     [] e[1] = "insQ" -> IF ValidKey(e[2]) THEN [parts EXCEPT !.quals = QInsert(parts.quals, ALowerS(e[2]), e[3])] ELSE parts
     [] e[1] = "remQ" -> IF ValidKey(e[2]) THEN [parts EXCEPT !.quals = QRemove(parts.quals, ALowerS(e[2]))] ELSE parts
RECURSIVE ApplyEdits(_, _)
ApplyEdits(parts, es) == IF es = <<>> THEN parts ELSE ApplyEdits(ApplyEdit(parts, es[1]), Tail(es))

\* step 1: PurlShape::finish.  String, Cow::Owned, SmartString: str_preview_mut (lib.rs:201);
\* Cow::Borrowed: validate, copy only if not lower (lib.rs:165) - same function of the input (C13).
FinishString(t) == IF ~ValidType(t) THEN Err("InvalidPackageType") ELSE [ok |-> TRUE, st |-> ALowerS(t)]
FinishCowBorrowed(t) ==
   IF ~ValidType(t) THEN Err("InvalidPackageType")
   ELSE IF ~All(IsLower, t) THEN [ok |-> TRUE, st |-> ALowerS(t)] ELSE [ok |-> TRUE, st |-> t]
StepFinish(shape, st, parts, tab) ==
   IF shape.kind = "generic" THEN
      LET r == FinishString(st) IN IF r.ok THEN [ok |-> TRUE, st |-> r.st, parts |-> parts] ELSE r
   ELSE IF shape.kind = "test" THEN
      (IF shape.fin THEN [ok |-> TRUE, st |-> st, parts |-> ApplyEdits(parts, shape.edits)] ELSE Err("HookError"))
   ELSE LET r == TypedFinish(st, parts, tab) IN
        IF r.ok THEN [ok |-> TRUE, st |-> st, parts |-> r.parts] ELSE r
\* step 2: name check
StepCheckName(shape, parts) == IF parts.name = <<>> THEN Err(WrapErr(shape, "MissingName")) ELSE [ok |-> TRUE]
\* step 3: retain non-empty qualifier values
StepRetain(parts) == [parts EXCEPT !.quals = QNonEmpty(parts.quals)]
\* step 4: checksum canonicalisation
StepChecksum(shape, parts, tab) ==
   IF ~QHas(parts.quals, CHECKSUM) THEN [ok |-> TRUE, parts |-> parts]
   ELSE LET c == CkCanon(QGet(parts.quals, CHECKSUM), tab) IN
        IF ~c.ok THEN Err(WrapErr(shape, c.err))
        ELSE [ok |-> TRUE, parts |-> [parts EXCEPT !.quals = QInsert(parts.quals, CHECKSUM, c.s)]]

TypeStr(shape, st) == IF shape.kind = "test" THEN ALowerS(st) ELSE st
MkValue(shape, st, parts) == [type |-> TypeStr(shape, st), ns |-> parts.ns, name |-> parts.name,
                              ver |-> parts.ver, quals |-> parts.quals, sub |-> parts.sub]
PartsOf(v) == [ns |-> v.ns, name |-> v.name, ver |-> v.ver, quals |-> v.quals, sub |-> v.sub]

\* the composition (one call of build())
BuildF(shape, st, parts, tab) ==
   LET f == StepFinish(shape, st, parts, tab) IN
   IF ~f.ok THEN f ELSE
   LET n == StepCheckName(shape, f.parts) IN
   IF ~n.ok THEN n ELSE
   LET c == StepChecksum(shape, StepRetain(f.parts), tab) IN
   IF ~c.ok THEN c ELSE [ok |-> TRUE, v |-> MkValue(shape, f.st, c.parts)]

\* every class of defect build() would refuse, whatever the order of its steps (C05 / C08 fix a class only for a single defect);
\* the hook's own edits do not create or hide a name or checksum defect for the built-in shapes
BuildDefects(shape, st, parts, tab) ==
   LET f == StepFinish(shape, st, parts, tab)
       c == StepChecksum(shape, StepRetain(parts), tab)
   IN (IF f.ok THEN {} ELSE {f.err})
      \cup (IF parts.name = <<>> THEN {WrapErr(shape, "MissingName")} ELSE {})
      \cup (IF c.ok THEN {} ELSE {c.err})
\* C10: into_builder().build()
Rebuild(shape, v, tab) == BuildF(shape, v.type, PartsOf(v), tab)
\* validity of a value by shape: the type string is constrained for the built-in shapes only
ValidFor(shape, v) == IF shape.kind = "test" THEN ValidParts(v) ELSE Valid(v)
=============================================================================
