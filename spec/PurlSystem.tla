----------------------------- MODULE PurlSystem -----------------------------
(***************************************************************************)
(* A closed client session with the library: one builder slot, two value   *)
(* slots (the current one and a saved one), one string slot.  Strings come from Display of values, values     *)
(* from the parser or from build(), builders from new() or into_builder()  *)
(* - so parse, format, build and re-build are composed to any depth, which *)
(* is what "for all PURL values, however obtained" means operationally.    *)
(*                                                                         *)
(*   New(t, n)        b := builder                                         *)
(*   Op(op)           b := Apply(b, op)            (a failing op drops b)  *)
(*   Build            v := BuildF(b), b dropped                            *)
(*   IntoBuilder      b := into_builder(v), v dropped                      *)
(*   Format           s := Display(v)                                      *)
(*   Respell(m)       s := another legal spelling of s (upper-case type,   *)
(*                         extra slashes, lower-case hex escapes)          *)
(*   Parse            v := ParseF(s)                                       *)
(*   Ser / De         the same two steps through serde (C16: the serde     *)
(*                    form IS the string form, so the model has one        *)
(*                    definition for both)                                 *)
(*   Save             w := clone of v                                      *)
(*   Swap             v, w exchanged                                       *)
(*   Compare          observation: v = w ?  (==, hash, cmp, strings, C19)  *)
(*   NewCombined(t,c) b := builder_with_combined_name (typed sessions)     *)
(*   CombinedName     observation: combined_name() of v (typed sessions)   *)
(* `log` records every step with the projection the implementation must    *)
(* show after it; it is a history variable (simulation configs only).      *)
(***************************************************************************)
EXTENDS PurlBuilder
CONSTANTS Shape,        \* Generic or Typed
          TypesU, NamesU, OpsU, CombU

\* a slot is [some |-> FALSE] or [some |-> TRUE, x |-> content]
None == [some |-> FALSE]
Just(x) == [some |-> TRUE, x |-> x]
IsNone(x) == ~x.some
VARIABLES b, v, w, s, err, log
svars == <<b, v, w, s, err, log>>
Init == b = None /\ v = None /\ w = None /\ s = None /\ err = None /\ log = <<>>

RecW(step, bb, vv, ww, ss, ee) == log' = Append(log, [step |-> step, after |-> [b |-> bb, v |-> vv, w |-> ww, s |-> ss, err |-> ee]])
\* every step but Save and Swap leaves the saved value alone
Rec(step, bb, vv, ss, ee) == UNCHANGED w /\ RecW(step, bb, vv, w, ss, ee)

New(t, n) == LET nb == Just([st |-> t, parts |-> [NoParts EXCEPT !.name = n]]) IN
             /\ b' = nb /\ UNCHANGED <<v, s>> /\ err' = None /\ Rec(<<"new", t, n>>, nb, v, s, None)
\* Purl::builder_with_combined_name (typed sessions; CombU is empty otherwise)
NewCombined(t, c) == LET sp == SplitCombined(t, c)
                         nb == Just([st |-> t, parts |-> [NoParts EXCEPT !.ns = sp.ns, !.name = sp.name]]) IN
             /\ b' = nb /\ UNCHANGED <<v, s>> /\ err' = None /\ Rec(<<"new_combined", t, c>>, nb, v, s, None)
Op(op) == /\ ~IsNone(b)
          /\ LET r == Apply(b.x, op, LowerTab) IN
             IF r.ok THEN b' = Just(r.b) /\ err' = None /\ UNCHANGED <<v, s>> /\ Rec(<<"op", op>>, Just(r.b), v, s, None)
             ELSE b' = None /\ err' = Just(r.err) /\ UNCHANGED <<v, s>> /\ Rec(<<"op", op>>, None, v, s, Just(r.err))
Build == /\ ~IsNone(b)
         /\ LET r == BuildF(Shape, b.x.st, b.x.parts, LowerTab) IN
            IF r.ok THEN v' = Just(r.v) /\ b' = None /\ err' = None /\ UNCHANGED s /\ Rec(<<"build">>, None, Just(r.v), s, None)
            ELSE v' = v /\ b' = None /\ err' = Just(r.err) /\ UNCHANGED s /\ Rec(<<"build">>, None, v, s, Just(r.err))
IntoBuilder == /\ ~IsNone(v)
               /\ LET nb == Just([st |-> v.x.type, parts |-> PartsOf(v.x)]) IN
                  b' = nb /\ v' = None /\ err' = None /\ UNCHANGED s /\ Rec(<<"into_builder">>, nb, None, s, None)
\* Display and Serialize write the same string (C16)
Format(how) == /\ ~IsNone(v)
               /\ LET str == Just(FormatSpec(v.x)) IN s' = str /\ UNCHANGED <<b, v>> /\ err' = None /\ Rec(<<how>>, b, v, str, None)
\* legal respellings of a canonical string
RECURSIVE LowerHexEscapes(_)
LowerHexEscapes(x) == IF x = <<>> THEN <<>>
                      ELSE IF x[1] = PCT /\ Len(x) >= 3 THEN <<PCT, ALower(x[2]), ALower(x[3])>> \o LowerHexEscapes(Drop(x, 3))
                      ELSE <<x[1]>> \o LowerHexEscapes(Tail(x))
UpperType(x) == LET i == FirstIdx(Drop(x, 4), SLASH) IN PKG \o AUpperS(SubSeq(x, 5, 3 + i)) \o Drop(x, 3 + i)
Respelled(m, x) == CASE m = "slashes" -> PKG \o <<SLASH, SLASH>> \o Drop(x, 4)
                     [] m = "uppertype" -> UpperType(x)
                     [] m = "lowerhex" -> LowerHexEscapes(x)
Respell(m) == /\ ~IsNone(s) /\ StartsWith(s.x, PKG)
              /\ LET str == Just(Respelled(m, s.x)) IN s' = str /\ UNCHANGED <<b, v>> /\ err' = None /\ Rec(<<"respell", m>>, b, v, str, None)
\* FromStr and Deserialize read the same language (C16)
Parse(how) == /\ ~IsNone(s)
              /\ LET r == ParseF(s.x, Shape, LowerTab) IN
                 IF r.ok THEN v' = Just(r.v) /\ err' = None /\ UNCHANGED <<b, s>> /\ Rec(<<how>>, b, Just(r.v), s, None)
                 ELSE v' = v /\ err' = Just(r.err) /\ UNCHANGED <<b, s>> /\ Rec(<<how>>, b, v, s, Just(r.err))
Save == /\ ~IsNone(v)
        /\ w' = v /\ UNCHANGED <<b, v, s>> /\ err' = None /\ RecW(<<"save">>, b, v, v, s, None)
Swap == /\ ~IsNone(v) \/ ~IsNone(w)
        /\ w' = v /\ v' = w /\ UNCHANGED <<b, s>> /\ err' = None /\ RecW(<<"swap">>, b, w, v, s, None)
\* observations: the state is unchanged, the log says what the client must see
SameValue == v.x = w.x
Compare == /\ ~IsNone(v) /\ ~IsNone(w)
           /\ UNCHANGED <<b, v, s>> /\ err' = None /\ Rec(<<"compare", SameValue>>, b, v, s, None)
CombinedName == /\ ~IsNone(v) /\ Shape = Typed
                /\ UNCHANGED <<b, v, s>> /\ err' = None /\ Rec(<<"combined_name", JoinCombined(v.x)>>, b, v, s, None)
Next == \/ \E t \in TypesU, n \in NamesU : New(t, n)
        \/ \E t \in TypesU, c \in CombU : NewCombined(t, c)
        \/ \E op \in OpsU : Op(op)
        \/ Build \/ IntoBuilder \/ Save \/ Swap \/ Compare \/ CombinedName
        \/ \E how \in {"format", "ser"} : Format(how)
        \/ \E how \in {"parse", "de"} : Parse(how)
        \/ \E m \in {"slashes", "uppertype", "lowerhex"} : Respell(m)
Spec == Init /\ [][Next]_svars

\* ---- properties of every reachable session state
SysValid == ~IsNone(v) => Valid(v.x)
\* a string in the slot is always the spelling of a value the parser gives back: C01 / C09 chained
SysStringParses == (~IsNone(s)) => LET r == ParseF(s.x, Shape, LowerTab) IN
                                   r.ok /\ ParseF(FormatSpec(r.v), Shape, LowerTab) = r
SysRebuild == ~IsNone(v) => Rebuild(Shape, v.x, LowerTab) = [ok |-> TRUE, v |-> v.x]
\* two values of one session, however obtained, are equal exactly when their strings are (C19)
SysCompare == (~IsNone(v) /\ ~IsNone(w)) => ((v.x = w.x) <=> (FormatSpec(v.x) = FormatSpec(w.x)))
SysSavedValid == ~IsNone(w) => Valid(w.x)
=============================================================================
