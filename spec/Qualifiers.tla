----------------------------- MODULE Qualifiers -----------------------------
(***************************************************************************)
(* The qualifier collection (qualifiers.rs), twice:                        *)
(*                                                                         *)
(*  MapApply(m, op)   - the reference of C11: a map from ASCII-lower-cased *)
(*                      keys to values; invalid keys are refused by        *)
(*                      mutating calls and absent for lookups.             *)
(*  VecApply(vec, op) - the implementation: a Vec of (key, value) kept     *)
(*                      sorted, binary search with the case-insensitive    *)
(*                      comparator, entry API working on indices.          *)
(*                                                                         *)
(* An op is a tuple <<name, args..>>; both operators return the new state  *)
(* and the value the call returns (res).  MC_Qual checks that VecApply     *)
(* refines MapApply under Abs, and StrictlySorted.                         *)
(*                                                                         *)
(* res encodings: Option -> [some |-> TRUE, v |-> x] / [some |-> FALSE];   *)
(* Result -> [ok |-> TRUE, ..] / [ok |-> FALSE, err |-> "InvalidQualifier"]*)
(* documented panic (Index / IndexMut on an absent key) -> [panic |-> TRUE]*)
(***************************************************************************)
EXTENDS PurlBuilder

\* the well-known typed qualifiers (qualifiers/well_known.rs, gem.rs, maven.rs): Rust type name -> key
KnownKey(n) == CASE n = "RepositoryUrl" -> REPO
                 [] n = "DownloadUrl" -> <<100,111,119,110,108,111,97,100,95,117,114,108>>     \* download_url
                 [] n = "VcsUrl" -> <<118,99,115,95,117,114,108>>                                \* vcs_url
                 [] n = "FileName" -> <<102,105,108,101,95,110,97,109,101>>                      \* file_name
                 [] n = "gem::Platform" -> <<112,108,97,116,102,111,114,109>>                   \* platform
                 [] n = "maven::Classifier" -> <<99,108,97,115,115,105,102,105,101,114>>         \* classifier
                 [] n = "maven::Type" -> <<116,121,112,101>>                                      \* type
                 \* a caller's own KnownQualifierKey type whose KEY is valid but not lower-case: stored and found as "build_tag"
                 [] n = "user::BuildTag" -> <<66,117,105,108,100,95,84,97,103>>                    \* Build_Tag
KnownNames == {"RepositoryUrl", "DownloadUrl", "VcsUrl", "FileName", "gem::Platform", "maven::Classifier", "maven::Type", "user::BuildTag"}
Some(x) == [some |-> TRUE, v |-> x]
None == [some |-> FALSE]
QErr == [ok |-> FALSE, err |-> "InvalidQualifier"]
Panic == [panic |-> TRUE]
LK(k) == ALowerS(k)

(***************************************************************************)
(* Reference map.                                                          *)
(***************************************************************************)
Has(m, k) == ValidKey(k) /\ LK(k) \in DOMAIN m
MapKeysAsc(m) == SortStrs(DOMAIN m)
MapPairs(m) == LET ks == MapKeysAsc(m) IN [i \in 1..Len(ks) |-> <<ks[i], m[ks[i]]>>]
RECURSIVE MapFromPairs(_, _)
MapFromPairs(ps, m) ==          \* try_from_iter: invalid key or repeated key (any case) -> error
   IF ps = <<>> THEN [ok |-> TRUE, m |-> m]
   ELSE IF ~ValidKey(ps[1][1]) \/ LK(ps[1][1]) \in DOMAIN m THEN QErr
   ELSE MapFromPairs(Tail(ps), FnSet(m, LK(ps[1][1]), ps[1][2]))
R(m, res) == [m |-> m, res |-> res]
MapApply(m, op, tab) ==
  LET k == IF Len(op) >= 2 THEN op[2] ELSE <<>>
      has == Has(m, k)
      cur == IF has THEN m[LK(k)] ELSE <<>>
  IN
  CASE op[1] = "insert" -> IF ValidKey(k) THEN R(FnSet(m, LK(k), op[3]), [ok |-> TRUE, v |-> op[3]]) ELSE R(m, QErr)
    [] op[1] = "get" -> R(m, IF has THEN Some(cur) ELSE None)
    [] op[1] = "contains_key" -> R(m, [b |-> has])
    [] op[1] = "remove" -> IF has THEN R(FnDel(m, LK(k)), Some(cur)) ELSE R(m, None)
    [] op[1] = "get_mut_set" -> IF has THEN R(FnSet(m, LK(k), op[3]), [found |-> TRUE]) ELSE R(m, [found |-> FALSE])
    [] op[1] = "index" -> R(m, IF has THEN [ok |-> TRUE, v |-> cur] ELSE Panic)
    [] op[1] = "index_mut_set" -> IF has THEN R(FnSet(m, LK(k), op[3]), [ok |-> TRUE]) ELSE R(m, Panic)
    [] op[1] = "entry_classify" -> R(m, IF ~ValidKey(k) THEN QErr ELSE IF has THEN [ok |-> TRUE, occ |-> TRUE, v |-> cur]
                                                                   ELSE [ok |-> TRUE, occ |-> FALSE])
    [] op[1] = "entry_or_insert" -> IF ~ValidKey(k) THEN R(m, QErr)
                                    ELSE IF has THEN R(m, [ok |-> TRUE, v |-> cur])
                                    ELSE R(FnSet(m, LK(k), op[3]), [ok |-> TRUE, v |-> op[3]])
    [] op[1] = "entry_or_insert_with" -> IF ~ValidKey(k) THEN R(m, QErr)
                                    ELSE IF has THEN R(m, [ok |-> TRUE, v |-> cur, calls |-> 0])
                                    ELSE R(FnSet(m, LK(k), op[3]), [ok |-> TRUE, v |-> op[3], calls |-> 1])
    [] op[1] = "entry_and_modify_or_insert" -> IF ~ValidKey(k) THEN R(m, QErr)
                                    ELSE IF has THEN R(FnSet(m, LK(k), op[3]), [ok |-> TRUE, v |-> op[3], calls |-> 1])
                                    ELSE R(FnSet(m, LK(k), op[4]), [ok |-> TRUE, v |-> op[4], calls |-> 0])
    [] op[1] = "occ_insert" -> IF has THEN R(FnSet(m, LK(k), op[3]), [occ |-> TRUE, old |-> cur]) ELSE R(m, [occ |-> FALSE])
    [] op[1] = "occ_remove" -> IF has THEN R(FnDel(m, LK(k)), [occ |-> TRUE, old |-> cur]) ELSE R(m, [occ |-> FALSE])
    [] op[1] = "occ_remove_entry" -> IF has THEN R(FnDel(m, LK(k)), [occ |-> TRUE, key |-> LK(k), old |-> cur])
                                     ELSE R(m, [occ |-> FALSE])
    [] op[1] = "vac_insert" -> IF ValidKey(k) /\ ~has THEN R(FnSet(m, LK(k), op[3]), [vac |-> TRUE, v |-> op[3]])
                               ELSE R(m, [vac |-> FALSE])
    [] op[1] = "retain_nonempty" -> R([x \in {y \in DOMAIN m : m[y] # <<>>} |-> m[x]], [calls |-> Cardinality(DOMAIN m)])
    [] op[1] = "retain_key_ne" -> R([x \in DOMAIN m \ {LK(k)} |-> m[x]], [calls |-> Cardinality(DOMAIN m)])
    \* QualifierKey < str (PartialOrd<S>): how many stored keys are below the lower-cased probe
    [] op[1] = "count_keys_lt" -> R(m, [n |-> Cardinality({x \in DOMAIN m : LexLess(x, LK(k))})])
    [] op[1] = "retain_mut_set" -> R([x \in DOMAIN m |-> k], [calls |-> Cardinality(DOMAIN m)])
    [] op[1] = "iter_mut_set" -> R([x \in DOMAIN m |-> k], [calls |-> Cardinality(DOMAIN m)])
    [] op[1] = "clear" -> R(EmptyFn, [unit |-> TRUE])
    [] op[1] = "reserve" -> R(m, [unit |-> TRUE])
    [] op[1] = "insert_typed_repo" -> R(FnSet(m, REPO, k), [unit |-> TRUE])
    [] op[1] = "remove_typed_repo" -> R(FnDel(m, REPO), [unit |-> TRUE])
    [] op[1] = "get_typed_repo" -> R(m, IF REPO \in DOMAIN m THEN Some(m[REPO]) ELSE None)
    \* generic typed accessors: op = <<name, RustTypeName, value?>>
    [] op[1] = "insert_typed" -> R(FnSet(m, LK(KnownKey(op[2])), op[3]), [unit |-> TRUE])
    [] op[1] = "remove_typed" -> R(FnDel(m, LK(KnownKey(op[2]))), [unit |-> TRUE])
    [] op[1] = "get_typed" -> R(m, IF LK(KnownKey(op[2])) \in DOMAIN m THEN Some(m[LK(KnownKey(op[2]))]) ELSE None)
    \* documented panic: a typed qualifier whose declared KEY is invalid ("!")
    [] op[1] = "insert_typed_badkey" -> R(m, Panic)
    [] op[1] = "try_get_typed_checksum" ->
         R(m, IF CHECKSUM \notin DOMAIN m THEN [ok |-> TRUE, some |-> FALSE]
              ELSE LET p == CkParse(m[CHECKSUM], tab) IN
                   IF p.ok THEN [ok |-> TRUE, some |-> TRUE, entries |-> p.a] ELSE QErr)
    [] op[1] = "try_insert_typed_checksum" ->
         LET t == CkTypedText(k, tab) IN
         IF t.ok THEN R(FnSet(m, CHECKSUM, t.s), [ok |-> TRUE]) ELSE R(m, QErr)
    [] op[1] = "try_from_iter" ->
         LET r == MapFromPairs(k, EmptyFn) IN IF r.ok THEN R(r.m, [ok |-> TRUE]) ELSE R(m, QErr)

(***************************************************************************)
(* Implementation: sorted Vec + binary search.                             *)
(***************************************************************************)
\* PartialOrd<S> for QualifierKey (qualifiers.rs:330): chars of the stored key against the
\* lower-cased chars of the probe; 0 Equal, 1 Greater, 2 Less.
RECURSIVE CmpChars(_, _)
CmpChars(a, b) == IF a = <<>> /\ b = <<>> THEN 0 ELSE IF a = <<>> THEN 2 ELSE IF b = <<>> THEN 1
                  ELSE IF a[1] < b[1] THEN 2 ELSE IF a[1] > b[1] THEN 1 ELSE CmpChars(Tail(a), Tail(b))
KeyCmp(stored, probe, tab) == CmpChars(stored, LowerS(probe, tab))
\* slice::binary_search_by as the loop it is (0-based lo/hi, result 1-based)
RECURSIVE BS(_, _, _, _, _)
BS(vec, probe, lo, hi, tab) ==
   IF lo >= hi THEN [found |-> FALSE, idx |-> lo + 1]
   ELSE LET mid == lo + ((hi - lo) \div 2)
            c == KeyCmp(vec[mid + 1][1], probe, tab)
        IN IF c = 0 THEN [found |-> TRUE, idx |-> mid + 1]
           ELSE IF c = 2 THEN BS(vec, probe, mid + 1, hi, tab) ELSE BS(vec, probe, lo, mid, tab)
Search(vec, k, tab) == BS(vec, k, 0, Len(vec), tab)
\* get_index: check_qualifier_key(key).ok()? then search
GetIndex(vec, k, tab) == IF ~ValidKey(k) THEN [found |-> FALSE, idx |-> 0] ELSE Search(vec, k, tab)
InsAt(vec, i, pr) == Take(vec, i - 1) \o <<pr>> \o Drop(vec, i - 1)
DelAt(vec, i) == Take(vec, i - 1) \o Drop(vec, i)
SetAt(vec, i, v) == [vec EXCEPT ![i] = <<vec[i][1], v>>]
\* into_key(): lower-case copy of the probe (ASCII, the key was validated)
IntoKey(k) == ALowerS(k)
RECURSIVE VecFromPairs(_, _, _)
VecFromPairs(ps, vec, tab) ==
   IF ps = <<>> THEN [ok |-> TRUE, vec |-> vec]
   ELSE IF ~ValidKey(ps[1][1]) THEN QErr
   ELSE LET s == Search(vec, ps[1][1], tab) IN
        IF s.found THEN QErr ELSE VecFromPairs(Tail(ps), InsAt(vec, s.idx, <<IntoKey(ps[1][1]), ps[1][2]>>), tab)
V(vec, res) == [vec |-> vec, res |-> res]
VGet(vec, k) == LET i == QIdx(vec, k) IN IF i = 0 THEN None ELSE Some(vec[i][2])
VecApply(vec, op, tab) ==
  LET k == IF Len(op) >= 2 THEN op[2] ELSE <<>>
      gi == GetIndex(vec, k, tab)                      \* lookups
      en == IF ValidKey(k) THEN Search(vec, k, tab) ELSE [found |-> FALSE, idx |-> 0]    \* entry()
  IN
  CASE op[1] = "insert" -> IF ~ValidKey(k) THEN V(vec, QErr)
                           ELSE IF en.found THEN V(SetAt(vec, en.idx, op[3]), [ok |-> TRUE, v |-> op[3]])
                           ELSE V(InsAt(vec, en.idx, <<IntoKey(k), op[3]>>), [ok |-> TRUE, v |-> op[3]])
    [] op[1] = "get" -> V(vec, IF gi.found THEN Some(vec[gi.idx][2]) ELSE None)
    [] op[1] = "contains_key" -> V(vec, [b |-> gi.found])
    [] op[1] = "remove" -> IF gi.found THEN V(DelAt(vec, gi.idx), Some(vec[gi.idx][2])) ELSE V(vec, None)
    [] op[1] = "get_mut_set" -> IF en.found THEN V(SetAt(vec, en.idx, op[3]), [found |-> TRUE]) ELSE V(vec, [found |-> FALSE])
    [] op[1] = "index" -> V(vec, IF gi.found THEN [ok |-> TRUE, v |-> vec[gi.idx][2]] ELSE Panic)
    [] op[1] = "index_mut_set" -> IF gi.found THEN V(SetAt(vec, gi.idx, op[3]), [ok |-> TRUE]) ELSE V(vec, Panic)
    [] op[1] = "entry_classify" -> V(vec, IF ~ValidKey(k) THEN QErr
                                          ELSE IF en.found THEN [ok |-> TRUE, occ |-> TRUE, v |-> vec[en.idx][2]]
                                          ELSE [ok |-> TRUE, occ |-> FALSE])
    [] op[1] = "entry_or_insert" -> IF ~ValidKey(k) THEN V(vec, QErr)
                                    ELSE IF en.found THEN V(vec, [ok |-> TRUE, v |-> vec[en.idx][2]])
                                    ELSE V(InsAt(vec, en.idx, <<IntoKey(k), op[3]>>), [ok |-> TRUE, v |-> op[3]])
    [] op[1] = "entry_or_insert_with" -> IF ~ValidKey(k) THEN V(vec, QErr)
                                    ELSE IF en.found THEN V(vec, [ok |-> TRUE, v |-> vec[en.idx][2], calls |-> 0])
                                    ELSE V(InsAt(vec, en.idx, <<IntoKey(k), op[3]>>), [ok |-> TRUE, v |-> op[3], calls |-> 1])
    [] op[1] = "entry_and_modify_or_insert" -> IF ~ValidKey(k) THEN V(vec, QErr)
                                    ELSE IF en.found THEN V(SetAt(vec, en.idx, op[3]), [ok |-> TRUE, v |-> op[3], calls |-> 1])
                                    ELSE V(InsAt(vec, en.idx, <<IntoKey(k), op[4]>>), [ok |-> TRUE, v |-> op[4], calls |-> 0])
    [] op[1] = "occ_insert" -> IF en.found THEN V(SetAt(vec, en.idx, op[3]), [occ |-> TRUE, old |-> vec[en.idx][2]])
                               ELSE V(vec, [occ |-> FALSE])
    [] op[1] = "occ_remove" -> IF en.found THEN V(DelAt(vec, en.idx), [occ |-> TRUE, old |-> vec[en.idx][2]])
                               ELSE V(vec, [occ |-> FALSE])
    [] op[1] = "occ_remove_entry" -> IF en.found THEN V(DelAt(vec, en.idx), [occ |-> TRUE, key |-> vec[en.idx][1], old |-> vec[en.idx][2]])
                                     ELSE V(vec, [occ |-> FALSE])
    [] op[1] = "vac_insert" -> IF ValidKey(k) /\ ~en.found THEN V(InsAt(vec, en.idx, <<IntoKey(k), op[3]>>), [vac |-> TRUE, v |-> op[3]])
                               ELSE V(vec, [vac |-> FALSE])
    [] op[1] = "retain_nonempty" -> V(SelectSeq(vec, LAMBDA e : e[2] # <<>>), [calls |-> Len(vec)])
    \* closure |key, _| key != probe, through PartialEq<S> for QualifierKey (case-insensitive)
    [] op[1] = "retain_key_ne" -> V(SelectSeq(vec, LAMBDA e : KeyCmp(e[1], k, tab) # 0), [calls |-> Len(vec)])
    [] op[1] = "count_keys_lt" -> V(vec, [n |-> Cardinality({i \in 1..Len(vec) : KeyCmp(vec[i][1], k, tab) = 2})])
    [] op[1] = "retain_mut_set" -> V([i \in 1..Len(vec) |-> <<vec[i][1], k>>], [calls |-> Len(vec)])
    [] op[1] = "iter_mut_set" -> V([i \in 1..Len(vec) |-> <<vec[i][1], k>>], [calls |-> Len(vec)])
    [] op[1] = "clear" -> V(<<>>, [unit |-> TRUE])
    [] op[1] = "reserve" -> V(vec, [unit |-> TRUE])
    [] op[1] = "insert_typed_repo" -> LET s == Search(vec, REPO, tab) IN
                                      V(IF s.found THEN SetAt(vec, s.idx, k) ELSE InsAt(vec, s.idx, <<REPO, k>>), [unit |-> TRUE])
    [] op[1] = "remove_typed_repo" -> LET s == Search(vec, REPO, tab) IN V(IF s.found THEN DelAt(vec, s.idx) ELSE vec, [unit |-> TRUE])
    [] op[1] = "get_typed_repo" -> LET s == Search(vec, REPO, tab) IN V(vec, IF s.found THEN Some(vec[s.idx][2]) ELSE None)
    [] op[1] = "insert_typed" -> LET kk == KnownKey(op[2])  s == Search(vec, kk, tab) IN
                                 V(IF s.found THEN SetAt(vec, s.idx, op[3]) ELSE InsAt(vec, s.idx, <<IntoKey(kk), op[3]>>), [unit |-> TRUE])
    [] op[1] = "remove_typed" -> LET s == Search(vec, KnownKey(op[2]), tab) IN V(IF s.found THEN DelAt(vec, s.idx) ELSE vec, [unit |-> TRUE])
    [] op[1] = "get_typed" -> LET s == Search(vec, KnownKey(op[2]), tab) IN V(vec, IF s.found THEN Some(vec[s.idx][2]) ELSE None)
    \* insert(KEY, value).unwrap() with an invalid KEY: check_qualifier_key fails, unwrap panics
    [] op[1] = "insert_typed_badkey" -> V(vec, Panic)
    [] op[1] = "try_get_typed_checksum" ->
         LET s == Search(vec, CHECKSUM, tab) IN
         V(vec, IF ~s.found THEN [ok |-> TRUE, some |-> FALSE]
                ELSE LET p == CkParse(vec[s.idx][2], tab) IN
                     IF p.ok THEN [ok |-> TRUE, some |-> TRUE, entries |-> p.a] ELSE QErr)
    [] op[1] = "try_insert_typed_checksum" ->
         LET t == CkTypedText(k, tab)  s == Search(vec, CHECKSUM, tab) IN
         IF ~t.ok THEN V(vec, QErr)
         ELSE V(IF s.found THEN SetAt(vec, s.idx, t.s) ELSE InsAt(vec, s.idx, <<CHECKSUM, t.s>>), [ok |-> TRUE])
    [] op[1] = "try_from_iter" ->
         LET r == VecFromPairs(k, <<>>, tab) IN IF r.ok THEN V(r.vec, [ok |-> TRUE]) ELSE V(vec, QErr)

\* abstraction function and the implementation invariant
Abs(vec) == [k \in {vec[i][1] : i \in 1..Len(vec)} |-> vec[CHOOSE i \in 1..Len(vec) : vec[i][1] = k][2]]
StrictlySorted(vec) == \A i \in 1..(Len(vec) - 1) : LexLess(vec[i][1], vec[i+1][1])
KeysCanonical(vec) == \A i \in 1..Len(vec) : ValidKey(vec[i][1]) /\ vec[i][1] = ALowerS(vec[i][1])

\* derived Ord of Qualifiers = Vec<(QualifierKey, SmallString)>: lexicographic over pairs
QualsOrd(a, b) == QualsCmp(a, b)
=============================================================================
